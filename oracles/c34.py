"""C34 - JSON writers produce files that parse back to the documents  (engine fs_sim).

The real `JSONWriter` / `JSONLinesWriter` write through the in-memory file system of sim/fs_fake.py (seams:
`bluesky.callbacks.json_writer.open` and `.Path`).
Workload: document sequences (a) emitted by the real RunEngine executing a generated plan on the simulated
devices (completed, failed, or interrupted and aborted/stopped runs, one or several runs), (b) generated
JSON-compatible documents with nested values, unicode, empty containers, large payloads (> one write buffer);
pre-existing files: none, empty, earlier JSON-lines content with and without a final newline, unrelated text.
Faults (JSON-lines only; separate configuration): at a chosen write/open syscall a crash before/after it, a torn
write followed by a crash, ENOSPC/EIO; after a crash a new writer instance (a restarted session) appends the
remaining documents to the same file.
Oracle, fault-free:
  JSONWriter     - after the stop document the file parses as a JSON array equal to the run's
                   {"name","doc"} records in order (whatever was in a file of that name before);
  JSONLinesWriter- the file starts with the pre-existing content unchanged, followed by exactly one line per
                   document, each parsing independently to its record, in order.
With faults: the pre-existing content and every line completely written before the fault are still there,
in order; every document written after the fault (same or restarted writer) has its own parseable line; the only
line that may fail to parse is the one being written when the fault struck.  Nothing is asserted about
JSONWriter before the stop document.
"""

import copy
import json
from unittest import mock

from sim import gen
from sim.fs_fake import FakeFS, SimCrash, make_path_class
from sim.kernel import Sim, installed
from sim.runner import Result
from sim.runner import run_case as re_run_case

from .common import V

ID = "C34"
TITLE = "JSON writers produce files that parse back to the documents"
ENGINE = "fs_sim"
QUICK = {"batches": 2500, "wall": 50.0}
THOROUGH = {"batches": 100000, "wall": 900.0}
COMPONENTS_REAL = [
    "bluesky.callbacks.json_writer.JSONWriter / JSONLinesWriter, stdlib json",
    "bluesky.RunEngine + RunBundler producing the documents (in the 're' share of the cases)",
]
COMPONENTS_STUB = [
    "the file system (in-memory; text written through a buffer committed at close or every 8 KiB; sim/fs_fake.py)",
    "devices (sim/devices.py), event loop and clock (SimLoop) for the 're' share",
]

RULE = (
    "one case = one writer kind, one document sequence (generated, or emitted by the real RunEngine for a generated and "
    "possibly interrupted plan), one pre-existing file state and, for JSON lines in 45% of the cases, 1-2 syscall faults "
    "with or without a restarted writer; non-trivial = pre-existing content, a fault, or RunEngine-produced documents; "
    "distinct = distinct (writer, filename, document kinds, pre-existing length, faults, restart) tuples"
)
ASSUMPTIONS = [
    "the disk is modelled at write()/close() granularity (buffered text committed at close or every 8 KiB); a crash is a "
    "process kill: committed bytes survive, buffered bytes do not",
    "documents are JSON-compatible (no NaN/Infinity, no numpy objects), as the property states",
    "JSONWriter is fed one run per instance (its documented use); interleaved runs are routed per run as RunRouter would",
    "sampling, not proof",
]
DIR = "/data/json"


def _uid(rng):
    return f"{rng.getrandbits(32):08x}-{rng.getrandbits(16):04x}-4{rng.getrandbits(12):03x}-a{rng.getrandbits(12):03x}-{rng.getrandbits(48):012x}"


def gen_value(rng, depth=0):
    r = rng.random()
    if r < 0.2:
        return rng.choice([0, 1, -7, 2**53, 10**20])
    if r < 0.35:
        return rng.choice([0.5, -1.25, 1e300, 1e-300, 0.0])
    if r < 0.55:
        return rng.choice(["", "x", "line\nbreak", "quote\"s", "back\\slash", "éè ", "],\n[", "a" * 300])
    if r < 0.62:
        return rng.choice([None, True, False])
    if depth >= 3:
        return 1
    if r < 0.82:
        return {rng.choice(["a", "b", "", "data", "k\n"]): gen_value(rng, depth + 1) for _ in range(rng.randrange(0, 4))}
    if r < 0.97:
        return [gen_value(rng, depth + 1) for _ in range(rng.randrange(0, 4))]
    return [float(i) for i in range(1500)]  # > 8 KiB once serialised: several write() system calls


def gen_run(rng):
    uid = _uid(rng)
    docs = [["start", {"uid": uid, "time": rng.random() * 1e9, "scan_id": rng.randrange(100), "md": gen_value(rng)}]]
    nd = rng.choice([0, 1, 2])
    duids = []
    for d in range(nd):
        du = _uid(rng)
        duids.append(du)
        docs.append(["descriptor", {"uid": du, "run_start": uid, "name": rng.choice(["primary", "baseline", "a b"]), "data_keys": {"det": {"dtype": "number", "shape": [], "source": "x"}}, "configuration": gen_value(rng)}])
    n = 0
    for _ in range(rng.choice([0, 1, 3, 8]) if nd else 0):
        n += 1
        kind = rng.choice(["event", "event", "event_page", "datum", "resource"])
        docs.append([kind, {"uid": _uid(rng), "descriptor": rng.choice(duids), "seq_num": n, "time": rng.random(), "data": {"det": gen_value(rng)}, "timestamps": {"det": 1.0}}])
    if rng.random() < 0.9:
        docs.append(["stop", {"uid": _uid(rng), "run_start": uid, "exit_status": rng.choice(["success", "abort", "fail"]), "reason": rng.choice(["", "because\nnewline"]), "num_events": {"primary": n}}])
    return docs


def re_docs(pid, seed, rng):
    """Documents the real RunEngine emits for a generated (possibly interrupted) plan."""
    from .generic import base_case, dry_run

    base = base_case(pid, seed, rng, suspender=0.0, followups=True, p_async=0.3)
    try:
        _, _, nsteps = dry_run(base)
    except RuntimeError:
        return None, None
    case = copy.deepcopy(base)
    if rng.random() < 0.5:
        from .generic import main_index

        step = case["script"][main_index(case)]
        step["inject"] = [{"at": {"step": rng.randrange(1, max(2, nsteps))}, "do": "pause"}]
        step["decisions"] = [{"do": rng.choice(["abort", "stop", "resume", "halt"])}]
    return case, None


def cases(seed, tier):
    rng = gen.rng_for(ID, seed)
    writer = rng.choice(["json", "jsonl", "jsonl"])
    case = {"prop": ID, "seed": seed, "writer": writer, "filename": rng.choice([None, None, "out.dat"]), "faults": {}, "restart": False}
    if rng.random() < 0.3:
        rc, _ = re_docs(ID, seed, rng)
        if rc is not None:
            case["re_case"] = rc
    if "re_case" not in case:
        runs = [gen_run(rng) for _ in range(1 if writer == "json" else rng.choice([1, 1, 2, 3]))]
        case["docs"] = [d for r in runs for d in r]
        if writer == "json" and case["docs"][-1][0] != "stop":
            case["docs"].append(["stop", {"uid": _uid(rng), "run_start": case["docs"][0][1]["uid"], "exit_status": "success"}])
    pre = rng.choice(["none", "none", "empty", "jsonl", "jsonl_nonl", "text", "torn"])
    if pre == "none":
        case["pre"] = None
    else:
        old = "".join(json.dumps({"name": n, "doc": d}) + "\n" for n, d in gen_run(rng))
        case["pre"] = {"empty": "", "jsonl": old, "jsonl_nonl": old[:-1], "text": "# header line\nnot json\n", "torn": old[: len(old) // 2]}[pre]
    if writer == "jsonl" and rng.random() < 0.45:
        ndocs = len(case.get("docs") or []) or 12
        # each document costs two syscalls (open, write) unless it is large
        for _ in range(rng.choice([1, 1, 2])):
            i = rng.randrange(0, 3 * ndocs + 1)
            kind = rng.choice(["crash_before", "crash_after", "torn", "enospc", "eio", "emfile"])
            f = {"kind": kind}
            if kind == "torn":
                f["frac"] = rng.choice([0.0, 0.4, 0.95])
            case["faults"][str(i)] = f
        case["restart"] = rng.random() < 0.7
    yield case


def shrink_candidates(case):
    if "docs" in case:
        for i in range(len(case["docs"]) - 1, 0, -1):
            if case["faults"]:
                break
            c = copy.deepcopy(case)
            del c["docs"][i]
            if case["writer"] == "json" and c["docs"][-1][0] != "stop":
                continue
            yield c
    for k in list(case["faults"]):
        c = copy.deepcopy(case)
        del c["faults"][k]
        yield c
    if case.get("pre"):
        c = copy.deepcopy(case)
        c["pre"] = None
        yield c
    if case.get("filename"):
        c = copy.deepcopy(case)
        c["filename"] = None
        yield c


# ---- running --------------------------------------------------------------------------------------------------


def _run_of(name, doc, owner):
    """Which run a document belongs to (what event_model.RunRouter does), for one-writer-per-run feeding."""
    if name == "start":
        run = doc["uid"]
    elif "run_start" in doc:
        run = doc["run_start"]
    else:
        ref = doc.get("descriptor") or doc.get("resource") or doc.get("stream_resource")
        run = owner.get(ref, owner.get("__last__"))
    if isinstance(doc.get("uid"), str):
        owner[doc["uid"]] = run
    if name == "start":
        owner["__last__"] = run
    return run


def jsonable(x):
    return json.loads(json.dumps(x))


def run_case(case):
    import bluesky.callbacks.json_writer as jw

    res = Result()
    res.case = case
    docs = case.get("docs")
    notes = {}
    if docs is None:
        r = re_run_case(case["re_case"])
        if r.aborted:
            res.sim = r.sim
            res.aborted = r.aborted
            res.history = r.history
            return res
        docs = []
        for e in r.history:
            if e[1] == "doc":
                try:
                    docs.append([e[4]["name"], jsonable(e[4]["doc"])])
                except (TypeError, ValueError):
                    notes["non-json-document-skipped"] = notes.get("non-json-document-skipped", 0) + 1
    sim = Sim(case.get("seed", 0), max_steps=10**6)
    res.sim = sim
    for k, v in notes.items():
        for _ in range(v):
            sim.probe(k)
    fs = FakeFS(sim, case.get("faults"))
    fs.dirs.add(DIR)
    FakePath = make_path_class(fs)
    sim.record("docs", docs=docs)

    def new_writer(filename):
        cls = jw.JSONWriter if case["writer"] == "json" else jw.JSONLinesWriter
        return cls(DIR, filename)

    with mock.patch.object(jw, "open", fs.open, create=True), mock.patch.object(jw, "Path", FakePath):
        w = new_writer(case.get("filename"))
        # the file this writer will use, if it can be known in advance, gets the pre-existing content
        first_start = next((d for n, d in docs if n == "start"), None)
        if case.get("filename"):
            target = f"{DIR}/{case['filename']}"
        elif docs and docs[0][0] == "start":
            target = f"{DIR}/{first_start['uid'].split('-')[0]}.{'json' if case['writer'] == 'json' else 'jsonl'}"
        else:
            target = None
        if case.get("pre") is not None and target is not None:
            fs.files[target] = case["pre"].encode()
        sim.record("target", path=target, pre=case.get("pre") if target else None)
        k = 0
        owner, writers = {}, {}
        while k < len(docs):
            name, doc = docs[k]
            if case["writer"] == "json":
                # JSONWriter is a single-run writer: one instance (and file) per run, fed that run's documents
                run = _run_of(name, doc, owner)
                if name == "start" and k > 0:
                    writers[run] = new_writer(None)
                elif name == "start":
                    writers[run] = w
                w = writers.get(run, w)
            before = copy.deepcopy(doc)
            try:
                w(name, doc)
                sim.record("wrote", k=k, outcome="ok", file=str(w.filename), mutated=doc != before)
            except SimCrash as e:
                sim.record("wrote", k=k, outcome="crash", text=str(e), file=str(w.filename))
                sim.record("disk", when="after-crash", files={p: c.decode(errors="replace") for p, c in sorted(fs.files.items())})
                if not case.get("restart"):
                    break
                # a restarted session: a new writer instance on the same file
                w = new_writer(w.filename)
                sim.record("restart", k=k)
            except OSError as e:
                sim.record("wrote", k=k, outcome="OSError", text=str(e), file=str(w.filename))
            except Exception as e:  # noqa: BLE001
                sim.record("wrote", k=k, outcome="error", text=f"{type(e).__name__}: {e}"[:200], file=str(w.filename))
            k += 1
        sim.record("disk", when="end", files={p: c.decode(errors="replace") for p, c in sorted(fs.files.items())})
    res.history = sim.history
    return res


# ---- oracle -----------------------------------------------------------------------------------------------------


def check(res):
    out = []
    if res.aborted:
        if res.aborted[0] == "SimInfeasible":
            return []
        return [V("aborted:" + res.aborted[0], str(res.aborted))]
    case = res.case
    docs = next(e[4]["docs"] for e in res.history if e[1] == "docs")
    target = next(e[4] for e in res.history if e[1] == "target")
    wrote = [e[4] for e in res.history if e[1] == "wrote"]
    final = [e[4] for e in res.history if e[1] == "disk"][-1]["files"]
    for w in wrote:
        if w["outcome"] == "error":
            out.append(V("writer-raised", f"document #{w['k']} ({docs[w['k']][0]}): {w['text']}"))
        if w.get("mutated"):
            out.append(V("writer-mutated-document", f"document #{w['k']} was modified by the writer"))
    if out:
        return out
    faulted = any(w["outcome"] in ("crash", "OSError") for w in wrote)
    if case["writer"] == "json":
        # split into runs
        runs, by_run, owner = [], {}, {}
        for k, (name, doc) in enumerate(docs):
            run = _run_of(name, doc, owner)
            if name == "start":
                by_run[run] = []
                runs.append(by_run[run])
            if run in by_run:
                by_run[run].append((k, name, doc))
        for run in runs:
            if run[-1][1] != "stop":
                continue  # nothing is promised before the stop document
            fn = wrote[run[0][0]]["file"]
            path = f"{DIR}/{fn}"
            later = [r for r in runs if r is not run and r[0][0] > run[0][0] and wrote[r[0][0]]["file"] == fn]
            if later:
                continue  # a later run reused the name (explicit filename): the file now belongs to that run
            text = final.get(path)
            if text is None:
                out.append(V("file-missing", f"no file {path} after the run's stop document"))
                continue
            try:
                got = json.loads(text)
            except ValueError as e:
                out.append(V("json-file-does-not-parse", f"{path}: {e}; starts {text[:60]!r} ends {text[-40:]!r}"))
                continue
            want = [{"name": n, "doc": d} for _, n, d in run]
            if got != want:
                out.append(V("json-array-differs", f"{path}: {len(got) if isinstance(got, list) else type(got).__name__} records, expected {len(want)}; first difference at {_firstdiff(got, want)}"))
        return out
    # JSON lines: all documents go to one file
    files = {w["file"] for w in wrote}
    if not wrote:
        return out  # the plan opened no run: nothing was written
    if len(files) != 1:
        out.append(V("several-files", f"one JSONLinesWriter wrote to {sorted(files)}"))
        return out
    path = f"{DIR}/{files.pop()}"
    text = final.get(path)
    if text is None:
        if all(w["outcome"] != "ok" for w in wrote):
            return out
        out.append(V("file-missing", f"no file {path}"))
        return out
    pre = target["pre"] if target["path"] == path and target["pre"] is not None else ""
    if not text.startswith(pre):
        out.append(V("earlier-content-lost", f"the file no longer starts with the {len(pre)} characters it held before; it now starts {text[:60]!r}"))
        return out
    rest = text[len(pre) :]
    if pre and not pre.endswith("\n"):
        # the last earlier line had no terminator: the new documents must start on a line of their own
        if not rest.startswith("\n") and any(w["outcome"] == "ok" for w in wrote):
            out.append(V("appended-to-unterminated-line", f"the file ended with {pre[-30:]!r} (no newline); the first new document was glued to that line: neither parses on its own"))
            return out
        rest = rest[1:]
    lines = rest.split("\n")
    if lines and lines[-1] == "":
        lines.pop()
    elif not faulted and lines:
        out.append(V("last-line-unterminated", f"the last line does not end with a newline: {lines[-1][-40:]!r}"))
    want = []  # (k, record, must_be_present)
    for w in wrote:
        rec = {"name": docs[w["k"]][0], "doc": docs[w["k"]][1]}
        want.append((w["k"], rec, w["outcome"] == "ok"))
    # walk the lines: every 'ok' document must appear, in order, as a line of its own; a line that does not parse
    # is tolerated only where a faulted document was being written
    li = 0
    for k, rec, must in want:
        if must:
            # skip at most the garbage left by faulted documents before this one
            while li < len(lines) and not _is(lines[li], rec):
                if _parses(lines[li]) and not faulted:
                    break
                if not faulted:
                    break
                li += 1
            if li >= len(lines) or not _is(lines[li], rec):
                out.append(V("document-line-missing", f"document #{k} ({rec['name']}) has no line of its own that parses back to it (line {li} is {lines[li][:80]!r})" if li < len(lines) else f"document #{k} ({rec['name']}) has no line in the file"))
                return out
            li += 1
    if not faulted:
        if li != len(lines):
            out.append(V("extra-lines", f"{len(lines) - li} lines beyond the documents written"))
    return out


def _parses(line):
    try:
        json.loads(line)
        return True
    except ValueError:
        return False


def _is(line, rec):
    try:
        return json.loads(line) == rec
    except ValueError:
        return False


def _firstdiff(a, b):
    if not isinstance(a, list):
        return 0
    for k, (x, y) in enumerate(zip(a, b)):
        if x != y:
            return k
    return min(len(a), len(b))


def nontrivial(res):
    c = res.case
    return bool(c.get("pre")) or bool(c.get("faults")) or "re_case" in c


def trace_key(res):
    import hashlib

    c = res.case
    docs = next((e[4]["docs"] for e in res.history if e[1] == "docs"), [])
    s = repr((c["writer"], c.get("filename"), [d[0] for d in docs], None if c.get("pre") is None else len(c["pre"]), sorted((k, v["kind"]) for k, v in c["faults"].items()), c.get("restart")))
    return hashlib.sha256(s.encode()).hexdigest()[:20]
