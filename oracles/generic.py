"""The shared 're_sim' workload: a generated plan on a generated world, interrupted at
arbitrary loop-handle boundaries, followed by post-pause decisions and follow-up calls.

Used (with different biases) by the interruption properties C01 C02 C05 C06 C07 C08 C14 ...
"""

from __future__ import annotations

import copy

from sim import gen
from sim.dsl import msg
from sim.runner import run_case

from .common import View

FAULT_METHODS = {
    "motor": ["set", "read", "stop", "stage", "unstage", "describe", "read_configuration"],
    "pmotor": ["set", "read", "stop", "stage", "unstage", "pause", "resume"],
    "det": ["trigger", "read", "stage", "unstage", "describe", "read_configuration", "describe_configuration"],
    "pdet": ["trigger", "read", "stage", "unstage", "pause", "resume"],
    "flyer": ["kickoff", "complete", "collect", "describe_collect"],
    "pageflyer": ["kickoff", "complete", "collect_pages", "describe_collect"],
    "signal": ["read", "describe", "subscribe", "clear_sub"],
}
STATUS_METHODS = {"set", "trigger", "kickoff", "complete"}
ENGINE_SIDE = {"clear_sub", "subscribe", "unstage", "stop", "collect", "collect_pages", "describe_collect", "complete", "pause", "resume"}


def base_case(
    pid, seed, rng, *, suspender=0.5, flyers=None, followups=True, p_async=0.3, re_opts=None, plan_opts=None, callbacks=False
):
    specs = gen.gen_world(rng, flyers=rng.choice([0, 0, 1]) if flyers is None else flyers, p_async=p_async)
    specs["sigS"] = {"kind": "signal", "initial": 0}
    pg = gen.PlanGen(rng, specs)
    plan_opts = dict(plan_opts or {})
    builtin = plan_opts.pop("builtin", 0.0)  # only the generic interruption families ask for bluesky's own plans
    prelude = plan_opts.pop("prelude", 0.0)
    clear = plan_opts.pop("clear", 0.0)
    cleanup_checkpoint = plan_opts.pop("cleanup_checkpoint", 0.0)
    pg.nonrewind = plan_opts.pop("nonrewind", 0.0)  # readings taken with rewinding switched off
    pg.monitor_opts = plan_opts.pop("monitor_opts", 0.0)  # 'monitor' messages carrying subscribe() options
    pg.watch = plan_opts.pop("watch", 0.0)  # 'wait' messages watching a second group
    pg.backstop = plan_opts.pop("backstop", 0.0)  # flyers left for 'close_run' to collect
    preprocessors = []
    if rng.random() < builtin:
        # bluesky's own plans (stage/run decorators, per-step checkpoints), optionally under the SupplementalData
        # preprocessor (baseline readings at both ends of the run, monitors and flyers around it)
        body = [gen.builtin_plan(rng, specs)]
        if rng.random() < 0.3:
            body.append(gen.builtin_plan(rng, specs))
        if rng.random() < 0.5:
            sd = {"name": "SupplementalData", "baseline": [], "monitors": [], "flyers": []}
            if pg.motors and rng.random() < 0.6:
                sd["baseline"] = [{"dev": pg.motors[-1]}]
            if rng.random() < 0.5:
                sd["monitors"] = [{"dev": "sig1"}]
            if pg.flyers and rng.random() < 0.5 and not any(n.get("name") == "fly" for n in body):
                sd["flyers"] = [{"dev": pg.flyers[0]}]
            preprocessors.append(sd)
        if rng.random() < cleanup_checkpoint:
            # clean-up written as a plan of its own, with its checkpoint (bluesky's plans drop an open event bundle on
            # their way out, so the checkpoint is legal wherever the plan is interrupted)
            S_ = pg.S
            body = [{"op": "try", "site": S_(), "body": body, "finally": [msg(S_, "null"), msg(S_, "checkpoint"), msg(S_, "null")]}]
    else:
        body = pg.generic(**plan_opts)
        if clear > rng.random():
            # the rest of the plan is a non-resumable section that still contains implicit checkpoints (unmonitor,
            # close_run, unstage): an interruption there ends the plan, it never pauses it
            body = gen.nonresumable_tail(rng, body, pg.S)
    S = pg.S
    case = {
        "prop": pid,
        "seed": seed,
        "sim": {"handle_cost": rng.choice([0.0, 0.0, 1e-4])},
        "re": {"record_interruptions": rng.random() < 0.3, "call_returns_result": rng.random() < 0.3},
        "devices": specs,
        "suspenders": {},
        "script": [],
    }
    case["re"].update(re_opts or {})
    if preprocessors and "preprocessors" not in case["re"]:
        case["re"]["preprocessors"] = preprocessors
    if rng.random() < suspender:
        kw = {"sleep": rng.choice([0, 0.5, 2.0])}
        case["suspenders"]["s0"] = {"cls": "SuspendBoolHigh", "signal": "sigS", "kwargs": kw}
        case["script"].append({"do": "install_suspender", "sus": "s0"})
        # ... and in some worlds a second one on a signal of its own: suspensions on top of each other (drawn from a
        # stream of its own so that the rest of the case does not depend on it)
        rng2 = gen.rng_for(pid, seed, "second-suspender")
        if rng2.random() < 0.3:
            specs["sigT"] = {"kind": "signal", "initial": 0}
            case["suspenders"]["s1"] = {"cls": "SuspendBoolHigh", "signal": "sigT", "kwargs": {"sleep": rng2.choice([0, 0.5, 2.0])}}
            case["script"].append({"do": "install_suspender", "sus": "s1"})
    main = {"do": "call", "plan": body, "main": True}
    if callbacks:
        case["callbacks"] = {"cbT": {}, "cbP": {}, "cbK": {}}
        case["script"].insert(0, {"do": "subscribe", "cb": "cbK", "name": "all", "token": "k0"})
        if rng.random() < 0.6:
            main["subs"] = {rng.choice(["all", "event", "stop"]): ["cbT"]}
        if rng.random() < 0.4:
            body.insert(0, msg(S, "subscribe", None, {"cb": "cbP"}, rng.choice(["all", "event"]), save="tokP"))
    if prelude > rng.random():
        # an earlier call on the same engine that ended with its checkpoint cleared (and, sometimes, a deferred
        # pause request still pending): none of that may leak into the main call
        pre = [msg(S, "checkpoint"), msg(S, "null"), msg(S, "clear_checkpoint"), msg(S, "null")]
        step = {"do": "call", "plan": pre, "tag": "prelude"}
        if rng.random() < 0.4:
            step["inject"] = [{"id": "pd", "at": {"msg": 3, "plus": 0}, "do": "dpause"}]
        case["script"].append(step)
    case["script"].append(main)
    # the control system updates a (possibly monitored) signal once the engine is idle again, and again during the
    # follow-up calls: nobody may be listening any more
    case["script"].append({"do": "put", "signal": "sig1", "value": 77})
    if followups:
        case["script"].append({"do": "call", "plan": [msg(S, "null")], "tag": "followup-null"})
        if rng.random() < 0.5:
            d = pg.dets[0]
            follow = [
                msg(S, "open_run"),
                msg(S, "checkpoint"),
                msg(S, "create", None, name="primary"),
                msg(S, "read", d),
                msg(S, "save"),
                msg(S, "close_run"),
            ]
            case["script"].append({"do": "call", "plan": follow, "tag": "followup-run"})
    return case


def main_index(case):
    for i, s in enumerate(case["script"]):
        if s.get("main"):
            return i
    for i, s in enumerate(case["script"]):
        if s["do"] == "call":
            return i


def trip_args(rng):
    return {"signal": "sigS", "value": 1, "release_value": 0, "after": rng.choice([0.0, 0.3, 5.0])}


def second_suspender(case, pid, seed, p=0.3, sleeps=(0, 0.5)):
    """In a share p of the worlds that have suspender s0: a second one (s1) on a signal of its own, installed right
    after s0 - suspensions on top of each other.  Drawn from a random stream of its own, so that the rest of the case
    does not depend on it.  Returns the function that re-targets (and sometimes flaps) the arguments of a trip."""
    rng2 = gen.rng_for(pid, seed, "second-suspender")
    have = "s1" in case["suspenders"]  # (base_case has installed it already)
    two = have or ("s0" in case["suspenders"] and rng2.random() < p)
    if two and not have:
        case["devices"]["sigT"] = {"kind": "signal", "initial": 0}
        case["suspenders"]["s1"] = {"cls": "SuspendBoolHigh", "signal": "sigT", "kwargs": {"sleep": rng2.choice(list(sleeps))}}
        at = next(i for i, s in enumerate(case["script"]) if s.get("do") == "install_suspender" and s.get("sus") == "s0")
        case["script"].insert(at + 1, {"do": "install_suspender", "sus": "s1"})

    def retarget(a):
        if two and rng2.random() < 0.5:
            a["signal"] = "sigT"
        if two and rng2.random() < 0.2:
            # the signal flaps (never twice in the same instant: one device thread delivers its updates in turn)
            a["after"] = a["after"] or 0.05
            a["then"] = [[rng2.choice([0.05, 0.1, 0.4, 1.0]), 1], [rng2.choice([0.05, 0.2, 1.0]), 0]]
        return a

    return retarget


def dry_run(base):
    """Fault-free run of the base case; returns (result, view, steps of the main call)."""
    dry = run_case(base)
    v = View(dry)
    main = None
    calls = [c for c in v.calls if c.api == "call"]
    steps = [s for s in base["script"] if s["do"] == "call"]
    for s, c in zip(steps, calls):
        if s.get("main"):
            main = c
    main = main or calls[0]
    if dry.aborted or main.outcome != "return":
        raise RuntimeError(
            f"generator contract broken: fault-free twin did not complete: {dry.aborted} {main.end.d if main.end else None}"
        )
    return dry, v, main.end.d["steps"]


def valid_case(case):
    """Shrinking contract: the fault-free twin of a candidate must still be a legal workload
    (every RE(...) call runs to completion without error)."""
    twin = gen.strip_faults(case)
    for step in twin["script"]:
        step.pop("decisions", None)
    r = run_case(twin)
    if r.aborted:
        return False
    v = View(r)
    calls = [c for c in v.calls if c.api == "call"]
    return bool(calls) and all(c.outcome == "return" for c in calls)


def add_device_faults(rng, case, dry_view, k=1, kinds=("raise", "status_fail")):
    """Schedule k device faults at (method, occurrence) pairs that the fault-free run reached."""
    seen = {}
    for e in dry_view.of("dev"):
        m = e.d["method"]
        if "occ" in e.d:
            seen.setdefault((e.d["dev"], m), 0)
            seen[(e.d["dev"], m)] = max(seen[(e.d["dev"], m)], e.d["occ"] + 1)
    cands = []
    for (dev, m), n in sorted(seen.items()):
        kind = case["devices"][dev]["kind"]
        if dev in ("sigS", "sigT"):
            continue
        if m in FAULT_METHODS.get(kind, []):
            cands.append((dev, m, n))
    chosen = []
    for _ in range(k):
        if not cands:
            break
        # methods the engine also calls on its own account (clean-up, pause/resume bookkeeping, close_run) are
        # rarer per plan than read/trigger/set: weight them up so that faults land inside those paths too
        dev, m, n = rng.choices(cands, weights=[3 if c[1] in ENGINE_SIDE else 1 for c in cands])[0]
        occ = rng.randrange(0, n + 1)  # may be an occurrence only reached after a rewind
        fk = rng.choice(kinds)
        if fk == "status_fail" and m not in STATUS_METHODS:
            fk = "raise"
        f = {"kind": fk, "exc": rng.choice(["RuntimeError", "ValueError", "TimeoutError"])}
        if fk == "status_fail":
            f["delay"] = rng.choice([0.0, 0.005, 0.2])
        case["devices"][dev].setdefault("faults", {})[f"{m}#{occ}"] = f
        chosen.append((dev, m, occ, fk))
    return chosen


WINDOW_OF = {"pause": "pausing", "dpause": "pausing", "abort": "aborting", "stop": "stopping", "halt": "halting", "trip": "suspending"}


def interruption_cases(pid, seed, tier, *, K=(10, 16), kinds=None, dev_faults=0.0, decisions=None, rng=None, base=None, **base_opts):
    rng = rng or gen.rng_for(pid, seed)
    if base is None:
        base_opts["plan_opts"] = {"builtin": 0.2, "prelude": 0.15, "clear": 0.12, "cleanup_checkpoint": 0.4, "monitor_opts": 0.4, "watch": 0.2, "backstop": 0.3, **(base_opts.get("plan_opts") or {})}
        base = base_case(pid, seed, rng, **base_opts)
        if rng.random() < 0.3:
            base["re"]["context_managers"] = "single_use"  # a user-supplied context manager around every blocking stretch
    # the fault-free case goes to the oracles first: if it does not even complete (which the generator contract
    # demands, checked right below) they say what went wrong with it before the contract failure is reported
    yield base
    dry, dv, n = dry_run(base)
    ci = main_index(base)
    has_sus = bool(base["suspenders"])
    kk = K[0] if tier == "quick" else K[1]
    kinds = list(kinds or gen.INTERRUPTS)
    if has_sus and "trip" not in kinds:
        kinds = kinds + ["trip", "trip"]
    if not has_sus:
        kinds = [k for k in kinds if k != "trip"] or ["pause"]
    rng2 = gen.rng_for(pid, seed, "second-suspender-trips")
    two = "s1" in base["suspenders"]

    def trip_args(_rng):
        a = globals()["trip_args"](_rng)
        if two and rng2.random() < 0.5:
            a["signal"] = "sigT"
        if two and rng2.random() < 0.2:
            # the signal flaps (never twice in the same instant: one device thread delivers its updates in turn)
            a["after"] = a["after"] or 0.05
            a["then"] = [[rng2.choice([0.05, 0.1, 0.4, 1.0]), 1], [rng2.choice([0.05, 0.2, 1.0]), 0]]
        return a

    for j in range(kk):
        c = copy.deepcopy(base)
        c["variant"] = j
        inj = gen.gen_injections(rng, n, kinds=kinds, k=rng.choice([1, 1, 2, 2, 3]))
        if inj and inj[0]["do"] in WINDOW_OF and rng.random() < 0.3:
            # a further request placed inside the transient state the first one creates (pausing, suspending,
            # aborting/stopping/halting while the clean-up runs): windows a few handles wide
            win = WINDOW_OF[inj[0]["do"]]
            # (a third of the time the same request again: abort() while aborting, pause while pausing ...)
            inj.append({"id": "w0", "at": {"state": win, "plus": rng.choice([0, 0, 1, 2, 3, 6, 10])}, "do": inj[0]["do"] if rng.random() < 0.33 else rng.choice(kinds)})
        for i in inj:
            if i["do"] == "trip":
                i["args"] = trip_args(rng)
        c["script"][ci]["inject"] = inj
        decs = []
        for _ in range(3):
            d = {"do": rng.choice(decisions or gen.DECISIONS)}
            if d["do"] == "resume" and rng.random() < 0.5:
                d["inject"] = gen.gen_injections(rng, n, kinds=kinds, k=1)
                if rng.random() < 0.3:
                    # right after the change of state: while resume() is still notifying the devices from the
                    # calling thread, or during the first replayed messages
                    d["inject"][0]["at"]["step"] = rng.randrange(0, 5)
                for i in d["inject"]:
                    if i["do"] == "trip":
                        i["args"] = trip_args(rng)
            decs.append(d)
        c["script"][ci]["decisions"] = decs
        c["script"][ci]["settle"] = rng.choice(["idle", 0, 1, "idle"])
        if rng.random() < dev_faults:
            add_device_faults(rng, c, dv, k=rng.choice([1, 1, 2]))
        yield c
    yield from nonresumable_cases(rng, base, dv, kinds)
    if dev_faults > 0:
        yield from engine_side_cases(rng, base, dv)
        yield from pause_bookkeeping_cases(rng, base, dv, n)


IMPLICIT_CHECKPOINTS = ("stage", "unstage", "monitor", "unmonitor", "subscribe", "unsubscribe", "close_run")


def nonresumable_cases(rng, base, dv, kinds, k=2):
    """Plans with a non-resumable tail: a pause / suspension placed after `clear_checkpoint`, in particular after one
    of the implicit checkpoints that follow it (they must not make the plan resumable again)."""
    ci = main_index(base)
    ncalls_before = sum(1 for s in base["script"][:ci] if s["do"] == "call")
    calls = [c for c in dv.calls if c.api == "call"]
    if ncalls_before >= len(calls):
        return
    ms = calls[ncalls_before].of("msg")
    cl = next((i for i, m in enumerate(ms) if m.d["cmd"] == "clear_checkpoint"), None)
    if cl is None:
        return
    after = [m.d["n"] for m in ms[cl + 1 : -1]]
    implicit = [m.d["n"] for m in ms[cl + 1 : -1] if m.d["cmd"] in IMPLICIT_CHECKPOINTS]
    for j in range(k):
        pool = implicit if implicit and (j == 0 or rng.random() < 0.5) else after
        if not pool:
            continue
        c = copy.deepcopy(base)
        c["variant"] = f"nonresumable-{j}"
        do = "trip" if ("trip" in kinds and rng.random() < 0.4) else "pause"
        inj = {"id": "nr", "at": {"msg": rng.choice(pool), "plus": rng.choice([0, 0, 1])}, "do": do}
        if do == "trip":
            inj["args"] = trip_args(rng)
        c["script"][ci]["inject"] = [inj]
        c["script"][ci]["decisions"] = [{"do": "resume"}, {"do": "resume"}]
        c["script"][ci]["settle"] = "idle"
        yield c


def pause_bookkeeping_cases(rng, base, dv, n, k=2):
    """A device error inside the engine's own pause bookkeeping (removing the monitors, pause() of a Pausable
    device) while a pause takes effect, and a terminating request right behind it: the error leaves the message
    loop with the plan still on the stack, the request meets the clean-up."""
    ci = main_index(base)
    spots = []  # (device, method, fault occurrence, message index after which the pause makes the engine call it)
    for e in dv.of("dev"):
        if e.d["method"] == "subscribe" and e.d.get("cb") == "RE.monitor" and "occ" in e.d:
            cl = sum(1 for x in dv.of("dev") if x.d["dev"] == e.d["dev"] and x.d["method"] == "clear_sub" and x.seq < e.seq)
            spots.append((e.d["dev"], "clear_sub", cl, e))
    ms = dv.of("msg")
    for dev, spec in sorted(base["devices"].items()):
        if spec["kind"] in ("pdet", "pmotor") and any(e.d["dev"] == dev for e in dv.of("dev")):
            first = next(e for e in dv.of("dev") if e.d["dev"] == dev)
            spots.append((dev, "pause", 0, first))
    for j, (dev, meth, occ, ev) in enumerate(rng.sample(spots, min(k, len(spots)))):
        later = [m.d["n"] for m in ms if m.seq > ev.seq and m.d["n"] is not None]
        later = [x for x in later if x <= (later[0] + 6 if later else 0)]
        if not later:
            continue
        c = copy.deepcopy(base)
        c["variant"] = f"pause-bookkeeping-{dev}.{meth}"
        c["devices"][dev].setdefault("faults", {})[f"{meth}#{occ}"] = {"kind": "raise", "exc": "RuntimeError"}
        c["script"][ci]["inject"] = [
            {"id": "pb", "at": {"msg": rng.choice(later), "plus": rng.choice([0, 1])}, "do": "pause"},
            {"id": "pt", "at": {"state": "pausing", "plus": rng.choice([0, 1, 2, 3, 4, 6])}, "do": rng.choice(["abort", "stop", "halt", "abort"])},
        ]
        c["script"][ci]["decisions"] = [{"do": rng.choice(["resume", "abort"])}]
        c["script"][ci]["settle"] = "idle"
        yield c


def resume_window_cases(pid, seed, tier, *, K=(4, 10)):
    """A request that lands while resume() is still notifying the Pausable devices one by one from the calling
    thread (or during the very first replayed messages); the plan's clean-up touches a device nothing had
    touched before, so the engine's device bookkeeping changes under that notification."""
    rng = gen.rng_for(pid, seed, "resume-window")
    specs = gen.gen_world(rng, motors=2, dets=2, flyers=0, p_async=0.3, pausable=0.0)
    for d in ("d1", "d2", "m1"):
        if rng.random() < 0.7:
            specs[d]["kind"] = "p" + specs[d]["kind"]
            if rng.random() < 0.4:
                specs[d].setdefault("async", {})["resume"] = rng.choice([0.0, 0.05])
    pg = gen.PlanGen(rng, specs)
    S = pg.S
    pg.motors = ["m1"]
    body = pg.run_block(monitor=0.0, fly=0.0)
    g = pg.group()
    fin = [msg(S, "set", "m2", 1.0, group=g), msg(S, "wait", None, group=g), msg(S, "null")]
    if rng.random() < 0.5:
        fin = [msg(S, "stage", "m2"), msg(S, "unstage", "m2")] + fin
    base = {
        "prop": pid,
        "seed": seed,
        "sim": {"handle_cost": 0.0},
        "re": {"record_interruptions": rng.random() < 0.3},
        "devices": specs,
        "suspenders": {},
        "script": [
            {"do": "call", "plan": [{"op": "try", "site": S(), "body": body, "finally": fin}], "main": True},
            {"do": "call", "plan": [msg(S, "null")], "tag": "followup-null"},
        ],
    }
    dry, dv, n = dry_run(base)
    for j in range(K[0] if tier == "quick" else K[1]):
        c = copy.deepcopy(base)
        c["variant"] = f"resume-window-{j}"
        c["script"][0]["inject"] = [{"id": "p0", "at": {"step": rng.randrange(2, max(3, n - 2))}, "do": rng.choice(["pause", "pause", "dpause"])}]
        c["script"][0]["decisions"] = [
            {"do": "resume", "inject": [{"id": "r0", "at": {"step": rng.randrange(0, 6)}, "do": rng.choice(["abort", "stop", "halt", "pause"])}]},
            {"do": rng.choice(["resume", "abort", "stop"])},
            {"do": "resume"},
        ]
        c["script"][0]["settle"] = "idle"
        yield c


def endless_wait_cases(pid, seed, tier, *, K=(3, 8)):
    """The engine has been interrupted once already in this call (pause + resume, or a suspension and its release)
    and is running again, blocked in the wait for a status that never finishes: abort / stop / halt from another
    thread must still get through to that wait (the second cancellation of the same task in one call)."""
    rng = gen.rng_for(pid, seed, "endless-wait")
    specs = gen.gen_world(rng, motors=1, dets=1, flyers=0, p_async=0.2, pausable=0.0)
    specs["sigS"] = {"kind": "signal", "initial": 0}
    pg = gen.PlanGen(rng, specs)
    S = pg.S
    m = pg.motors[0]
    g = pg.group()
    body = [msg(S, "open_run"), msg(S, "checkpoint"), msg(S, "null"), msg(S, "sleep", None, 0.5), msg(S, "checkpoint"), msg(S, "set", m, 7.0, group=g), msg(S, "wait", None, group=g), msg(S, "null"), msg(S, "close_run")]
    plan = [{"op": "try", "site": S(), "body": body, "finally": [msg(S, "null")]}]
    for j in range(K[0] if tier == "quick" else K[1]):
        c = {
            "prop": pid,
            "seed": seed,
            "variant": f"endless-wait-{j}",
            "sim": {"handle_cost": 0.0},
            "re": {"record_interruptions": rng.random() < 0.3},
            "devices": copy.deepcopy(specs),
            "suspenders": {"s0": {"cls": "SuspendBoolHigh", "signal": "sigS", "kwargs": {"sleep": 0}}},
            "script": [{"do": "install_suspender", "sus": "s0"}, {"do": "call", "plan": plan, "main": True}, {"do": "call", "plan": [msg(S, "null")], "tag": "followup-null"}],
        }
        for d_ in c["devices"].values():
            d_.pop("faults", None)
        c["devices"][m]["faults"] = {"set#0": {"kind": "never"}}
        term = rng.choice(["abort", "stop", "halt"])
        if rng.random() < 0.5:
            c["script"][1]["inject"] = [{"id": "p0", "at": {"time": 0.2}, "do": "pause"}]
            c["script"][1]["decisions"] = [{"do": "resume", "inject": [{"id": "t0", "at": {"time": rng.choice([1.0, 2.0])}, "do": term}]}]
        else:
            c["script"][1]["inject"] = [
                {"id": "p0", "at": {"time": 0.2}, "do": "trip", "args": {"signal": "sigS", "value": 1, "release_value": 0, "after": 0.3}},
                {"id": "t0", "at": {"time": rng.choice([2.0, 3.0])}, "do": term},
            ]
        c["script"][1]["settle"] = "idle"
        yield c


def engine_side_cases(rng, base, dv, k=2):
    """k extra cases per plan: one fault, alone, in a method the engine calls on its own account (clean-up,
    close_run, pause bookkeeping) at an occurrence the fault-free run reached."""
    seen = {}
    for e in dv.of("dev"):
        if "occ" in e.d and e.d["dev"] not in ("sigS", "sigT"):
            seen[(e.d["dev"], e.d["method"])] = max(seen.get((e.d["dev"], e.d["method"]), 0), e.d["occ"] + 1)
    eng = [(d, m, n) for (d, m), n in sorted(seen.items()) if m in ENGINE_SIDE and m in FAULT_METHODS.get(base["devices"][d]["kind"], [])]
    for d, m, n in rng.sample(eng, min(k, len(eng))):
        c = copy.deepcopy(base)
        occ = rng.randrange(0, n)
        c["variant"] = f"engine-side-{d}.{m}#{occ}"
        c["devices"][d].setdefault("faults", {})[f"{m}#{occ}"] = {"kind": "raise", "exc": "RuntimeError"}
        yield c
    # ... and one in which the method keeps failing from some occurrence on (a device that went away): the
    # engine's retries and its second line of clean-up meet the same refusal
    if eng:
        d, m, n = rng.choice(eng)
        c = copy.deepcopy(base)
        occ = rng.randrange(0, n)
        c["variant"] = f"engine-side-sticky-{d}.{m}#{occ}+"
        c["devices"][d].setdefault("faults", {})[f"{m}#{occ}+"] = {"kind": "raise", "exc": "RuntimeError"}
        yield c
