"""C42 - Each run's trace span ends once with that run's outcome.

The RunEngine's run spans go to an in-memory recorder (sim/runner.py FakeTracer, substituted for the module
attribute `bluesky.run_engine.tracer` that `_open_run` looks up at call time; the OpenTelemetry SDK is not
installed, so this is the 'in-memory span exporter' the property names).
Workload: plans over 1-3 run keys whose open_run / data points / close_run are interleaved in arbitrary order
(LIFO, FIFO, mixed), some runs left for the engine to close at the end of the plan, plans that raise in the
middle, device faults; pause / deferred pause / abort / stop / halt at arbitrary loop-handle boundaries with
resume / abort / stop / halt decisions afterwards; follow-up calls (a span leaked by one call would be closed by
the next one's close_run).
Oracle: every span is attributed to the run whose RunStart was emitted by the open_run that created it.
 (a) whenever the engine is idle at the end of a call, every opened run's span has been ended;
 (b) no span is ended twice;
 (c) the span's last `exit_status` attribute equals the exit_status of that run's RunStop document.
A span created by an open_run that failed (no run was opened) is only counted (probe).
"""

import copy

from sim import gen
from sim.dsl import SiteCounter, msg

from . import generic
from .common import V, View

ID = "C42"
TITLE = "Each run's trace span ends once with that run's outcome"
QUICK = {"batches": 220, "wall": 50.0}
THOROUGH = {"batches": 6000, "wall": 900.0}
COMPONENTS_STUB_EXTRA = ["OpenTelemetry tracer (in-memory recorder at bluesky.run_engine.tracer)"]

valid_case = generic.valid_case


def _segments(pg, key, rng, monitor=False):
    S = pg.S
    segs = [[msg(S, "open_run", None, run=key)]]
    if monitor and pg.signals:
        # left installed: close_run itself has to remove it (and may fail doing so)
        segs.append([msg(S, "monitor", pg.signals[0], run=key, name=f"{pg.signals[0]}_monitor")])
    for _ in range(rng.choice([0, 1, 2])):
        segs.append(pg.point(run=key, stream="primary", checkpoint=0.7, move=0.3, devices=pg.dets[:1], also_read=[]))
    return segs


def build_plan(rng, specs):
    pg = gen.PlanGen(rng, specs, sites=SiteCounter())
    keys = rng.choice([[None], ["A", "B"], ["A", "B"], [None, "B"], ["A", "B", "C"]])
    mon = rng.choice(keys) if rng.random() < 0.5 else "-"
    per = {k: _segments(pg, k, rng, monitor=(k == mon)) for k in keys}
    closes = {k: [msg(pg.S, "close_run", None, run=k)] for k in keys}
    left_open = {k for k in keys if rng.random() < 0.25}
    # random merge preserving each run's own order
    body = []
    pending = {k: list(v) + ([] if k in left_open else [closes[k]]) for k, v in per.items()}
    while any(pending.values()):
        k = rng.choice([k for k, v in pending.items() if v])
        body.extend(pending[k].pop(0))
    return body


def cases(seed, tier):
    rng = gen.rng_for(ID, seed)
    base = generic.base_case(ID, seed, rng, suspender=0.3, flyers=0, followups=True)
    base["tracing"] = True
    ci = generic.main_index(base)
    base["script"][ci]["plan"] = build_plan(rng, base["devices"])
    retarget = generic.second_suspender(base, ID, seed)
    ci = generic.main_index(base)
    try:
        dry, dv, n = generic.dry_run(base)
    except RuntimeError:
        return
    yield base
    has_sus = bool(base["suspenders"])
    kinds = list(gen.INTERRUPTS) + (["trip"] if has_sus else [])
    for j in range(10 if tier == "quick" else 16):
        c = copy.deepcopy(base)
        c["variant"] = j
        r = rng.random()
        if r < 0.2:
            # the plan raises somewhere in the middle
            plan = c["script"][ci]["plan"]
            plan.insert(rng.randrange(0, len(plan) + 1), {"op": "raise", "exc": "PlanError", "site": 9000 + j})
        elif r < 0.35:
            generic.add_device_faults(rng, c, dv, k=1)
        if r >= 0.2 or rng.random() < 0.3:
            inj = gen.gen_injections(rng, n, kinds=kinds, k=rng.choice([1, 1, 2, 3]))
            for i in inj:
                if i["do"] == "trip":
                    i["args"] = retarget(generic.trip_args(rng))
            c["script"][ci]["inject"] = inj
            c["script"][ci]["decisions"] = [{"do": rng.choice(gen.DECISIONS)} for _ in range(3)]
        c["script"][ci]["settle"] = rng.choice(["idle", 0, 1, "idle"])
        yield c
    yield from generic.engine_side_cases(rng, base, dv, k=3)
    # an open_run that is refused (the metadata validator rejects it) and handled by the plan, which then opens the
    # run properly - sometimes with another run already open: a refused open_run has no span
    for j in range(2):
        S3 = SiteCounter()
        c = copy.deepcopy(base)
        c["variant"] = f"refused-open-run-{j}"
        c["re"]["md_validator"] = "reject_key"
        c["re"]["reject_key"] = "forbidden"
        key = rng.choice([None, "B"])
        plan = []
        if rng.random() < 0.5:
            plan.append(msg(S3, "open_run", None, run="A"))
        plan.append({"op": "try", "site": S3(), "body": [msg(S3, "open_run", None, run=key, forbidden=1)], "handlers": [{"exc": "ValueError", "body": [msg(S3, "null")], "reraise": False}]})
        if rng.random() < 0.7:
            plan += [msg(S3, "open_run", None, run=key), msg(S3, "checkpoint"), msg(S3, "null"), msg(S3, "close_run", None, run=key)]
        if plan[0].get("cmd") == "open_run" and rng.random() < 0.6:
            plan.append(msg(S3, "close_run", None, run="A"))
        c["script"][ci]["plan"] = plan
        c["script"][ci].pop("inject", None)
        yield c
    # a request that arrives while the engine's own end-of-call clean-up is awaiting a device (an asynchronous
    # stop()): runs the plan left open are closed by that clean-up, after the request changed how the call ends
    motors = gen.names(base["devices"], "motor", "pmotor")
    nb = sum(1 for s_ in base["script"][:ci] if s_["do"] == "call")
    for j in range(2 if motors else 0):
        c = copy.deepcopy(base)
        c["variant"] = f"request-during-cleanup-{j}"
        m = motors[0]
        c["devices"][m].setdefault("async", {})["stop"] = 0.05
        plan = c["script"][ci]["plan"]
        plan[:] = [n_ for n_ in plan if not (n_.get("cmd") == "close_run" and rng.random() < 0.6)]
        plan.append({"op": "msg", "cmd": "set", "obj": m, "args": [3.0], "kw": {"group": "gx"}, "site": f"x{j}a"})
        plan.append({"op": "msg", "cmd": "wait", "kw": {"group": "gx"}, "site": f"x{j}b"})
        if rng.random() < 0.4:
            plan.append({"op": "raise", "exc": "PlanError", "site": f"x{j}c"})
        probe = generic.run_case(gen.strip_faults(c))
        pcalls = [c_ for c_ in View(probe).calls if c_.api == "call"]
        if probe.aborted or nb >= len(pcalls):
            continue
        last = len(pcalls[nb].of("msg"))
        c["script"][ci]["inject"] = [{"id": "cl", "at": {"msg": last, "plus": rng.choice([2, 3, 4, 5, 6, 8])}, "do": rng.choice(["abort", "abort", "stop", "halt"])}]
        c["script"][ci]["settle"] = "idle"
        yield c


def check(res):
    out = []
    if res.aborted:
        return out
    H = res.history
    spans = {}  # sid -> dict
    order = []
    open_cmd = None
    for e in H:
        k, d = e[1], e[4]
        if k == "span_start":
            spans[d["sid"]] = {"sid": d["sid"], "seq": e[0], "run": None, "opened": None, "ends": [], "status": None, "status_at_end": []}
            order.append(d["sid"])
            open_cmd = d["sid"]
        elif k == "doc" and d["name"] == "start" and open_cmd is not None and spans[open_cmd]["run"] is None:
            spans[open_cmd]["run"] = d["doc"]["uid"]
        elif k == "cmd" and d["cmd"] == "open_run" and open_cmd is not None:
            spans[open_cmd]["opened"] = d["end"] == "ok"
            open_cmd = None
        elif k == "span_attr" and d["key"] == "exit_status":
            spans[d["sid"]]["status"] = d["value"]
        elif k == "span_end":
            s = spans[d["sid"]]
            s["ends"].append(e[0])
            s["status_at_end"].append(s["status"])
    stops = {}
    for e in H:
        if e[1] == "doc" and e[4]["name"] == "stop":
            stops[e[4]["doc"]["run_start"]] = e[4]["doc"]
    # runs opened without a span at all
    starts = [e[4]["doc"]["uid"] for e in H if e[1] == "doc" and e[4]["name"] == "start"]
    by_run = {s["run"]: s for s in spans.values() if s["run"]}
    for uid in starts:
        if uid not in by_run:
            out.append(V("run-without-span", f"run {uid[:8]} has no span"))
    for s in spans.values():
        if s["run"] is None or s["opened"] is False:
            # a run span belongs to a run: an open_run that was refused (no RunStart) has none - otherwise a later
            # open_run of the same key replaces it unended, or the clean-up reports a status for a run that never existed
            res.sim.probe("span-of-failed-open_run")
            out.append(V("span-without-run", f"span #{s['sid']} was started by an open_run that did not open a run (no RunStart); it was ended {len(s['ends'])} time(s)"))
            continue
        if len(s["ends"]) > 1:
            out.append(V("span-ended-twice", f"span #{s['sid']} of run {s['run'][:8]} was ended {len(s['ends'])} times"))
        stop = stops.get(s["run"])
        if s["ends"] and stop is not None and s["status_at_end"][0] != stop["exit_status"]:
            # whose status did it get?
            other = [u for u, d in stops.items() if u != s["run"] and d["exit_status"] == s["status_at_end"][0]]
            out.append(
                V(
                    "span-exit-status-differs",
                    f"span #{s['sid']} of run {s['run'][:8]} ended with exit_status={s['status_at_end'][0]!r}; the run's RunStop says {stop['exit_status']!r}"
                    + (" (another open run ended with that status)" if other else ""),
                    span_status=s["status_at_end"][0],
                    stop_status=stop["exit_status"],
                )
            )
    # (a) at every return to idle all opened runs' spans are ended
    for e in H:
        if e[1] == "call_end" and e[4].get("state") == "idle":
            for s in spans.values():
                if s["run"] is None or s["opened"] is not True or s["seq"] > e[0]:
                    continue
                if not [x for x in s["ends"] if x < e[0]]:
                    stop = stops.get(s["run"])
                    out.append(
                        V(
                            "span-not-ended-at-idle",
                            f"span #{s['sid']} of run {s['run'][:8]} (RunStop exit_status={stop['exit_status'] if stop else None!r}) is still open when the engine is idle again",
                            stop_status=stop["exit_status"] if stop else None,
                        )
                    )
            break_after = False
            if out:
                break_after = True
            if break_after:
                break
    return out


def nontrivial(res):
    n = sum(1 for e in res.history if e[1] == "span_start")
    return n >= 2 or generic_nontrivial(res)


def generic_nontrivial(res):
    for e in res.history:
        if e[1] == "inject_end" and e[4]["outcome"] in ("ok", "interrupted"):
            return True
    return bool(res.sim.fault_counts)
