"""C30 - Suspenders trip and release exactly on their documented conditions.

Workload: every built-in suspender class with generated thresholds, resume thresholds, band limits, expected
values (including the falsy ones 0, 0.0, False and '') and allow_resume; generated (non-NaN) value histories
delivered by the simulated control-system thread at arbitrary loop handles while a plan runs, while it is
suspended, and while the engine is idle (before the call, between calls).
Reference model = the documented predicates:
  BoolHigh: suspend bool(v), resume not bool(v)            BoolLow: the reverse
  Floor(s, r>=s): suspend v < s, resume v >= r             Ceil(s, r<=s): suspend v > s, resume v <= r
  WhenOutsideBand(b, t): suspend not b<v<t, resume b<v<t   OutBand(b, t): the reverse
  WhenChanged(expected, allow_resume): suspend v != expected, resume allow_resume and v == expected;
                                       expected defaults to the signal's value at construction only if not given
Oracle, after every delivered value: the suspender's own predicates agree with the model (every explicitly
given threshold / expected value is honoured), never both true; `tripped` equals the model's state (set on
suspend, cleared on resume, unchanged in a hysteresis gap); RE.request_suspend is called exactly when the
model trips while the engine is running and no release is pending; the plan held by the suspension resumes
no earlier than (first value satisfying the resume condition) + sleep.
"""

import copy

from sim import gen
from sim.dsl import msg

from . import generic
from .common import V, View

ID = "C30"
TITLE = "Suspenders trip and release exactly on their documented conditions"
QUICK = {"batches": 2500, "wall": 50.0}
THOROUGH = {"batches": 80000, "wall": 900.0}
SHRINK_PLAN = False

VALUES = [-2, -1, -0.5, 0, 0.0, 0.5, 1, 1.5, 2, 3, 5, True, False]


def make_suspender(rng):
    cls = rng.choice(
        ["SuspendBoolHigh", "SuspendBoolLow", "SuspendFloor", "SuspendCeil", "SuspendWhenOutsideBand", "SuspendOutBand", "SuspendWhenChanged", "SuspendWhenChanged", "SuspendFloor", "SuspendCeil"]
    )
    spec = {"cls": cls, "signal": "sigS", "kwargs": {"sleep": rng.choice([0, 0, 0.5, 2.0])}}
    vals = list(VALUES)
    init = 0
    if cls in ("SuspendFloor", "SuspendCeil"):
        s = rng.choice([0, 1, -1, 0.5, 2])
        spec["args"] = [s]
        if rng.random() < 0.6:
            gap = rng.choice([0, 0.5, 1, 2])
            spec["kwargs"]["resume_thresh"] = s + gap if cls == "SuspendFloor" else s - gap
        init = s + 1 if cls == "SuspendFloor" else s - 1
    elif cls in ("SuspendWhenOutsideBand", "SuspendOutBand"):
        b = rng.choice([-1, 0, 0.5])
        t = b + rng.choice([0.5, 1, 2])
        spec["args"] = [b, t]
        init = (b + t) / 2 if cls == "SuspendWhenOutsideBand" else b - 1
    elif cls == "SuspendWhenChanged":
        exp = rng.choice([0, 0.0, False, "", 1, 2, "beam", None])
        if exp is not None:
            spec["kwargs"]["expected_value"] = exp
        spec["kwargs"]["allow_resume"] = rng.random() < 0.7
        # the signal's value at construction is independent of the expected value that is passed in
        init = rng.choice([0, 1, 2, "beam", ""])
        vals = [0, 1, 2, "", "beam", False, 0.0]
    elif cls == "SuspendBoolHigh":
        init = 0
    else:
        init = 1
    return spec, init, vals


def model(spec, init):
    cls = spec["cls"]
    a = spec.get("args", [])
    kw = spec.get("kwargs", {})
    if cls == "SuspendBoolHigh":
        return (lambda v: bool(v)), (lambda v: not bool(v))
    if cls == "SuspendBoolLow":
        return (lambda v: not bool(v)), (lambda v: bool(v))
    if cls == "SuspendFloor":
        s = a[0]
        r = kw.get("resume_thresh", s)
        return (lambda v: v < s), (lambda v: v >= r)
    if cls == "SuspendCeil":
        s = a[0]
        r = kw.get("resume_thresh", s)
        return (lambda v: v > s), (lambda v: v <= r)
    if cls == "SuspendWhenOutsideBand":
        b, t = a
        return (lambda v: not (b < v < t)), (lambda v: b < v < t)
    if cls == "SuspendOutBand":
        b, t = a
        return (lambda v: b < v < t), (lambda v: not (b < v < t))
    if cls == "SuspendWhenChanged":
        exp = kw["expected_value"] if "expected_value" in kw else init
        allow = kw.get("allow_resume", False)
        return (lambda v: v != exp), (lambda v: allow and v == exp)
    raise ValueError(cls)


def cases(seed, tier):
    rng = gen.rng_for(ID, seed)
    spec, init, vals = make_suspender(rng)
    specs = {"sigS": {"kind": "signal", "initial": init}, "d1": {"kind": "det", "base": 1.0, "coef": {}, "trigger_delay": 0.05}}
    S = gen.SiteCounter()
    body = [msg(S, "open_run"), msg(S, "checkpoint")]
    for _ in range(rng.choice([3, 5, 8])):
        body += [msg(S, "sleep", None, rng.choice([0.1, 0.5, 1.0])), msg(S, "checkpoint"), msg(S, "null")]
    body.append(msg(S, "close_run"))
    case = {
        "prop": ID,
        "seed": seed,
        "sim": {"handle_cost": rng.choice([0.0, 1e-4])},
        "re": {},
        "devices": specs,
        "suspenders": {"s0": spec},
        "init": init,
        "script": [{"do": "install_suspender", "sus": "s0"}],
    }
    # values while idle
    for _ in range(rng.choice([0, 1, 2])):
        case["script"].append({"do": "put", "signal": "sigS", "value": rng.choice(vals)})
    # make sure the plan can start: end the idle phase on a non-suspending value most of the time
    sus_f, res_f = model(spec, init)
    ok_vals = [x for x in vals if not sus_f(x) and res_f(x)] or [init]
    if rng.random() < 0.8:
        case["script"].append({"do": "put", "signal": "sigS", "value": rng.choice(ok_vals)})
    inj = []
    n = 60
    for i in range(rng.choice([2, 3, 4, 6])):
        inj.append({"id": f"v{i}", "at": {"time": round(rng.uniform(0.0, 6.0), 3)}, "do": "put", "args": {"signal": "sigS", "value": rng.choice(vals)}})
    # always release in the end so that the plan can finish
    inj.append({"id": "rel", "at": {"time": 9.0}, "do": "put", "args": {"signal": "sigS", "value": rng.choice(ok_vals)}})
    inj.sort(key=lambda x: x["at"]["time"])
    if rng.random() < 0.25:
        # the watched signal cannot be read at some moment (the suspenders read it for their message): the trip and
        # the suspension must not depend on that
        specs["sigS"]["faults"] = {f"get#{rng.choice([0, 0, 1, 2])}": {"kind": "raise", "exc": "RuntimeError"}}
    case["script"].append({"do": "call", "plan": body, "main": True, "inject": inj})
    case["script"].append({"do": "put", "signal": "sigS", "value": rng.choice(vals)})
    yield case


def check(res):
    out = []
    v = View(res)
    res.notes = {}
    case = res.case
    spec = case["suspenders"]["s0"]
    sus_f, res_f = model(spec, case["init"])
    sleep = spec["kwargs"].get("sleep", 0)
    # installing subscribes with run=True: the suspender sees the signal's current value first
    tripped = bool(sus_f(case["init"]))
    pending_release = tripped  # model of 'an event exists and has not been told to fire'
    if res.aborted:
        # a suspender that is never released legitimately blocks for ever; only predicate checks below
        pass
    evs = v.evs
    expected_requests = 0
    resume_ok_at = None  # virtual time from which the held plan may resume
    held_since = None
    for e in evs:
        if e.kind == "sus":
            val = e.d["value"]
            ms, mr = bool(sus_f(val)), bool(res_f(val))
            if ms and mr:
                continue  # cannot happen for the documented predicates
            if e.d["ss"] != ms or e.d["sr"] != mr:
                out.append(
                    V(
                        "predicate-differs-from-documentation",
                        f"{spec['cls']}({spec.get('args', [])}, {spec['kwargs']}) value={val!r}: should_suspend={e.d['ss']} should_resume={e.d['sr']}, documented {ms}/{mr}",
                        suspender=spec["cls"],
                    )
                )
                return out
            if e.d["ss"] and e.d["sr"]:
                out.append(V("suspend-and-resume-both-true", f"{spec['cls']} value={val!r}"))
            if not e.d["installed"]:
                continue
            if ms:
                if not pending_release:
                    pending_release = True
                    # the state the requesting thread saw is recorded with the request itself
                    expected_requests += 0
                tripped = True
            elif mr:
                tripped = False
                pending_release = False
            res.notes["values_checked"] = res.notes.get("values_checked", 0) + 1
            if e.d["tripped"] != tripped:
                out.append(V("tripped-flag-differs-from-model", f"{spec['cls']} after value {val!r}: tripped={e.d['tripped']}, model says {tripped}", suspender=spec["cls"]))
                return out
    # request_suspend is called exactly at model trips that find the engine running and no release pending
    tripped = False
    pending = bool(sus_f(case["init"]))
    want_req = []
    maybe_req = 0  # trips during whose handling the engine's state changed (the plan ended just then): 0 or 1 request
    states = []
    cur_state = "idle"
    changed = False
    for e in evs:
        if e.kind == "state":
            cur_state = e.d["new"]
            changed = True
        elif e.kind == "dev" and e.d["dev"] == "sigS" and e.d["method"] == "put":
            state_at_put = cur_state
            changed = False
        elif e.kind == "sus" and e.d["installed"]:
            val = e.d["value"]
            if sus_f(val):
                if not pending:
                    pending = True
                    # (the suspender looks at RE.state only after it has made its event on the loop thread, a few
                    # loop steps after the update was delivered)
                    if changed and "running" in (state_at_put, cur_state):
                        maybe_req += 1
                        res.notes["trip_raced_with_state_change"] = res.notes.get("trip_raced_with_state_change", 0) + 1
                    elif state_at_put == "running":
                        want_req.append(e.seq)
            elif res_f(val):
                pending = False
    got_req = [e.seq for e in evs if e.kind == "sus_request"]
    if not (len(want_req) <= len(got_req) <= len(want_req) + maybe_req):
        out.append(V("request-suspend-count", f"{len(got_req)} request_suspend calls, the model expects {len(want_req)}" + (f" to {len(want_req) + maybe_req}" if maybe_req else ""), got=len(got_req), want=len(want_req)))
    # no early release: the helper resumes no earlier than (first resume-satisfying value after the trip) + sleep
    # (the trip that matters is the value that made the suspender call request_suspend: the releasing
    # value may arrive before the engine has even processed '_start_suspender')
    trip_seq = None
    rel_t = None
    for e in evs:
        if e.kind == "sus" and e.d["installed"]:
            val = e.d["value"]
            if sus_f(val):
                if trip_seq is None or rel_t is not None:
                    trip_seq, rel_t = e.seq, None
            elif res_f(val) and trip_seq is not None and rel_t is None:
                rel_t = e.t
        elif e.kind == "msg" and e.d["cmd"] == "_resume_from_suspender":
            if trip_seq is None:
                continue
            if rel_t is None:
                out.append(V("released-without-resume-condition", f"plan resumed at t={e.t} but no value satisfied the resume condition after the trip"))
            elif e.t < rel_t + sleep - 1e-9:
                out.append(V("released-early", f"plan resumed at t={e.t}, resume condition first met at t={rel_t}, sleep={sleep}"))
    return out


def nontrivial(res):
    return bool(getattr(res, "notes", {}).get("values_checked"))
