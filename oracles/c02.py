"""C02 - Exit status, reason and raised exception reflect how the run ended.

Classification of each invocation (RE(...) until idle again) from the history:
  terminators : accepted abort / stop / halt requests (other threads or the user's post-pause decision)
  failed pause: a pause / suspension accepted after clear_checkpoint
  failure     : the call raised an exception E other than RunEngineInterrupted
Strict assertions only when exactly one terminating cause occurred (otherwise counted 'ambiguous'):
  * runs the *engine* closed (their RunStop was not produced by a close_run message) carry
      success (completed, stop) / abort (abort, halt, failed pause) / fail with reason == str(E);
  * after an accepted interruption and no failure fault the call raises RunEngineInterrupted;
  * after a failure the call re-raises the unhandled exception itself: an injected device exception,
    or FailedStatus chained (__cause__) to the device's exception, or the plan's own exception.
    Any other exception type out of RE(...) is reported as 'unexpected-exception'.
"""

from . import generic
from .common import V, View, docs_by_run, monitor_lost_in_flight

ID = "C02"
TITLE = "Exit status, reason and raised exception reflect how the run ended"
QUICK = {"batches": 200, "wall": 50.0}
THOROUGH = {"batches": 6000, "wall": 900.0}


valid_case = generic.valid_case


def cases(seed, tier):
    yield from generic.interruption_cases(ID, seed, tier, dev_faults=0.5, K=(12, 20))
    yield from generic.resume_window_cases(ID, seed, tier)
    yield from replayed_failure_cases(seed, tier)


def replayed_failure_cases(seed, tier):
    """bluesky's own count(): a suspension strikes inside the event bundle (the rewind cancels the bundle), the
    replay re-issues the trigger and that exposure fails; trigger_and_read drops its bundle - which is gone already -
    and re-raises; a pause and resume land in the clean-up that follows.  The call ends with the device's failure
    (FailedStatus), not with a complaint about the message sequence."""
    import copy

    from sim import gen
    from sim.dsl import msg

    rng = gen.rng_for(ID, seed, "replayed-failure")
    specs = gen.gen_world(rng, motors=1, dets=2, flyers=0, p_async=0.0)
    specs["sigS"] = {"kind": "signal", "initial": 0}
    pg = gen.PlanGen(rng, specs)
    S = pg.S
    d1, d2 = pg.dets[0], pg.dets[1]
    for dname in (d1, d2):
        specs[dname]["trigger_delay"] = 0.01
        specs[dname]["kind"] = "det"
        specs[dname].pop("async", None)
    plan = [{"op": "plan", "name": "count", "args": [{"devs": [d1, d2]}], "kw": {"num": 1, "delay": None}}]
    for j in range(2 if tier == "quick" else 6):
        c = {
            "prop": ID,
            "seed": seed,
            "variant": f"replayed-trigger-fails-then-pause-{j}",
            "sim": {"handle_cost": 0.0},
            "re": {"call_returns_result": False, "record_interruptions": False},
            "devices": copy.deepcopy(specs),
            "suspenders": {"s0": {"cls": "SuspendBoolHigh", "signal": "sigS", "kwargs": {"sleep": rng.choice([0, 0.5])}}},
            "script": [
                {"do": "install_suspender", "sus": "s0"},
                {
                    "do": "call",
                    "plan": plan,
                    "main": True,
                    # (message numbers of count([d1, d2], num=1): 9 = create, 10 = read d1, 11 = read d2; the pause is
                    # swept over the messages that follow the release: replayed triggers, drop, close_run, unstage)
                    "inject": [
                        {"id": "t0", "at": {"msg": rng.choice([9, 10]), "plus": rng.choice([0, 1])}, "do": "trip", "args": {"signal": "sigS", "value": 1, "release_value": 0, "after": 0.3}},
                        {"id": "p0", "at": {"msg": rng.randrange(16, 24), "plus": rng.choice([0, 1])}, "do": "pause"},
                    ],
                    "decisions": [{"do": "resume"}, {"do": "resume"}],
                    "final": "resume",
                },
                {"do": "call", "plan": [msg(S, "null")], "tag": "followup-null"},
            ],
        }
        c["devices"][d1]["faults"] = {"trigger#1": {"kind": "status_fail", "exc": "TimeoutError", "delay": 0.0}}
        yield c
    # ... and the plan is *outside* any bundle when the suspension strikes (in count's delay between two shots); the
    # replay re-opens the shot's bundle and a read fails inside it.  The plan is past that bundle and will never close
    # it; its clean-up (the final baseline reading of SupplementalData) opens a bundle of its own
    for j in range(1 if tier == "quick" else 3):
        c = {
            "prop": ID,
            "seed": seed,
            "variant": f"replayed-read-fails-outside-bundle-{j}",
            "sim": {"handle_cost": 0.0},
            "re": {"call_returns_result": False, "record_interruptions": False, "preprocessors": [{"name": "SupplementalData", "baseline": [{"dev": pg.motors[0]}], "monitors": [], "flyers": []}]},
            "devices": copy.deepcopy(specs),
            "suspenders": {"s0": {"cls": "SuspendBoolHigh", "signal": "sigS", "kwargs": {"sleep": 0}}},
            "script": [
                {"do": "install_suspender", "sus": "s0"},
                {
                    "do": "call",
                    "plan": [{"op": "plan", "name": "count", "args": [{"devs": [d1, d2]}], "kw": {"num": 2, "delay": 1.0}}],
                    "main": True,
                    "inject": [{"id": "t0", "at": {"time": rng.choice([0.3, 0.6])}, "do": "trip", "args": {"signal": "sigS", "value": 1, "release_value": 0, "after": 0.2}}],
                },
                {"do": "call", "plan": [msg(S, "null")], "tag": "followup-null"},
            ],
        }
        c["devices"][d2]["faults"] = {"read#1": {"kind": "raise", "exc": "RuntimeError"}}
        yield c


EXPECTED = {"stop": "success", "abort": "abort", "halt": "abort", "failed_pause": "abort", "completed": "success"}


def engine_closed_stops(inv):
    """[(stop_doc, closed_by_engine: bool)] in emission order."""
    out = []
    evs = inv.events
    last_msg = None
    finished = set()  # mids of the commands that have ended
    for e in evs:
        if e.kind == "msg":
            last_msg = e
            finished.discard(e.d["mid"])
        elif e.kind == "cmd":
            finished.add(e.d["mid"])
        elif e.kind == "doc" and e.d["name"] == "stop":
            # by the plan: emitted while the plan's own 'close_run' message is being executed (that can take several
            # loop steps: the engine first collects a flyer the plan left uncollected)
            by_plan = last_msg is not None and last_msg.d["cmd"] == "close_run" and (last_msg.step == e.step or last_msg.d["mid"] not in finished)
            out.append((e, not by_plan))
    return out


def classify(inv):
    causes = []
    resumable = True
    faults_fired = 0
    for c in inv.calls:
        for m in c.of("msg"):
            if m.d["cmd"] == "clear_checkpoint":
                resumable = False
            if m.d["cmd"] in ("pause",) and not resumable:
                causes.append("failed_pause")
        for b, e in c.accepted("abort", "stop", "halt"):
            causes.append(b.d["do"])
        # ... and a terminating request that took effect (the engine entered aborting / stopping / halting) although
        # the requesting call itself then failed with something else (e.g. a device error while it resumed the task)
        for b, e in c.injections:
            if b.d["do"] in ("abort", "stop", "halt") and str(e.d["outcome"]).startswith("error"):
                if any(x.kind == "state" and x.d["new"] in ("aborting", "stopping", "halting") and b.seq < x.seq < e.seq for x in c.events):
                    causes.append(b.d["do"])
        if not resumable:
            # a pause / suspension request that reached the engine while it was running the non-resumable section
            # (not one that arrived after the plan's last message or when the engine was idle again)
            cleared = next(m.seq for m in c.of("msg") if m.d["cmd"] == "clear_checkpoint") if any(m.d["cmd"] == "clear_checkpoint" for m in c.of("msg")) else -1
            for b, e in c.accepted("pause", "trip"):
                landed = b.d["state"] == "running" and b.seq > cleared and any(m.seq > e.seq for m in inv.of("msg"))
                if b.d["do"] == "trip":
                    landed = landed and any(x.kind == "sus_request" and x.d["state"] == "running" and b.seq < x.seq <= e.seq for x in c.events)
                if landed:
                    causes.append("failed_pause")
                    inv.failed_pause_seq = min(getattr(inv, "failed_pause_seq", e.seq), e.seq)
        if c.api in ("abort", "stop", "halt") and c.outcome in ("return", "raise") and c.exc in (None, "RunEngineInterrupted"):
            causes.append(c.api)
    for e in inv.events:
        if e.kind == "dev" and e.d.get("fault"):
            faults_fired += 1
        if e.kind == "status" and not e.d["ok"]:
            faults_fired += 1
    return causes, faults_fired


ALLOWED_FAILURES = ("Injected", "FailedStatus", "PlanError", "CallbackError")

KNOWN_PREDICATES = {
    # D8: see known_findings.json
    "monitor_lost_in_flight": lambda v, res: v["cls"] == "unexpected-exception:IllegalMessageSequence"
    and "monitor" in v["detail"]
    and monitor_lost_in_flight(res),
}


def check(res):
    out = []
    v = View(res)
    res.notes = {}
    if res.aborted:
        return out
    for inv in v.invocations:
        if not inv.calls or inv.calls[-1].end is None:
            continue
        causes, faults = classify(inv)
        last = inv.calls[-1]
        failure = None
        for c in inv.calls:
            if c.outcome == "raise" and c.exc not in ("RunEngineInterrupted", "TransitionError"):
                failure = c
        # ---- what was raised
        if failure is not None:
            exc = failure.exc or ""
            if not exc.startswith(ALLOWED_FAILURES):
                out.append(
                    V(
                        "unexpected-exception:" + exc,
                        f"{failure.api} raised {exc}: {failure.end.d['text'][:200]} (causes={causes}, device faults fired={faults})",
                        exc=exc,
                        causes=causes,
                    )
                )
                continue
            if exc == "FailedStatus":
                cause = failure.end.d.get("cause")
                if not cause or not cause["type"].startswith("Injected"):
                    out.append(V("failedstatus-not-chained", f"FailedStatus.__cause__ is {cause}", cause=cause))
        if len(set(causes)) + (1 if failure is not None else 0) > 1 or (faults and failure is None and causes):
            res.notes["ambiguous_skipped"] = res.notes.get("ambiguous_skipped", 0) + 1
            continue
        # ---- single cause: strict
        if failure is None and causes:
            kind = causes[0]
            # the blocking call during which the request was accepted must raise RunEngineInterrupted
            if not any(c.outcome == "raise" and c.exc == "RunEngineInterrupted" for c in inv.calls):
                out.append(V("interruption-not-reported", f"{kind} accepted but no call raised RunEngineInterrupted: {[ (c.api, c.outcome, c.exc) for c in inv.calls]}", kind=kind))
            want = EXPECTED[kind]
            reason_want = None
            if kind == "failed_pause" and getattr(inv, "failed_pause_seq", None) is not None and str(last.state) == "idle":
                # whoever closes them (the engine, or the plan's own close_run on its way out): the runs that were
                # open when the interruption struck the non-resumable section end as aborted
                for e in inv.of("doc"):
                    if e.d["name"] == "stop" and e.seq > inv.failed_pause_seq and e.d["doc"].get("exit_status") != "abort":
                        out.append(V("wrong-exit-status", f"run closed with exit_status={e.d['doc'].get('exit_status')!r} after a pause/suspension in a non-resumable section, expected 'abort'", got=e.d["doc"].get("exit_status"), want="abort", causes=causes))
                        break
        elif failure is not None:
            want = "fail"
            reason_want = failure.end.d["text"]
        else:
            if last.outcome != "return":
                continue  # paused at the end etc. -- nothing to assert
            want = "success"
            reason_want = None
        if str(last.state) != "idle":
            continue
        for e, by_engine in engine_closed_stops(inv):
            if not by_engine:
                continue
            doc = e.d["doc"]
            if doc.get("exit_status") != want:
                out.append(
                    V(
                        "wrong-exit-status",
                        f"engine-closed run has exit_status={doc.get('exit_status')!r}, expected {want!r} (cause={causes or ('failure' if failure else 'completed')})",
                        got=doc.get("exit_status"),
                        want=want,
                        causes=causes,
                    )
                )
            elif want == "fail" and reason_want is not None and doc.get("reason") != reason_want and len(reason_want) < 290:
                out.append(V("wrong-reason", f"reason={doc.get('reason')!r} expected {reason_want!r}"))
    return out
