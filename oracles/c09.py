"""C09 - A deferred pause takes effect exactly at the next checkpoint.

Strict on single-fault schedules: exactly one accepted RE.request_pause(defer=True) per case (the 0.5 s
sleep inside the checkpoint handling is a window in which further requests make the expectation
ambiguous -- those schedules are covered by C07/C01 only).
After acceptance `RE.deferred_pause_requested` is True.  Let c be the next 'checkpoint' message processed:
the call ends paused with no message processed after c, and after resume() the first message is one never
seen before (nothing replayed) and the flag is False.  If no checkpoint follows, the call returns normally
with the flag still True, and the flag is False once the next plan has started.
"""

import copy

from sim import gen
from sim.dsl import msg

from . import generic
from .common import V, View

ID = "C09"
TITLE = "A deferred pause takes effect exactly at the next checkpoint"
QUICK = {"batches": 160, "wall": 50.0}
THOROUGH = {"batches": 5000, "wall": 900.0}

valid_case = generic.valid_case


def cases(seed, tier):
    rng = gen.rng_for(ID, seed)
    base = generic.base_case(ID, seed, rng, suspender=0.0, flyers=0, plan_opts={"cleanup": 0.3})
    # a tail without any checkpoint in about half of the cases
    ci = generic.main_index(base)
    if rng.random() < 0.5:
        S = gen.SiteCounter("t")
        base["script"][ci]["plan"] = base["script"][ci]["plan"] + [msg(S, "null"), msg(S, "sleep", None, 0.1), msg(S, "null")]
    dry, dv, n = generic.dry_run(base)
    K = 14 if tier == "quick" else 28
    for j in range(K):
        c = copy.deepcopy(base)
        c["variant"] = j
        step = (j * (n + 3)) // K + rng.randrange(0, max(1, (n + 3) // K))
        c["script"][ci]["inject"] = [{"id": "i0", "at": {"step": step}, "do": "dpause"}]
        c["script"][ci]["decisions"] = [{"do": "resume"}, {"do": "resume"}]
        c["script"][ci]["final"] = "resume"
        yield c
    # a status fails during the half second the engine spends in the checkpoint at which the deferred pause is due;
    # the plan copes with the FailedStatus: the pause still comes first (nothing is processed after the checkpoint,
    # nothing is replayed after the resume), the failure reaches the plan afterwards
    motors = [d for d, sp in base["devices"].items() if sp["kind"] in ("motor", "pmotor")]
    if motors:
        m = motors[0]
        S = gen.SiteCounter("w")
        for j in range(2):
            guarded = [msg(S, "checkpoint"), msg(S, "null"), msg(S, "wait", None, group="gw"), msg(S, "null")]
            plan = [
                msg(S, "open_run"),
                msg(S, "checkpoint"),
                msg(S, "set", m, 9.0, group="gw"),
                msg(S, "null"),
                msg(S, "sleep", None, 0.05),  # (the deferred request is accepted while this sleep lasts)
                {"op": "try", "site": S(), "body": guarded, "handlers": [{"exc": "FailedStatus", "body": [msg(S, "null")], "reraise": False}]},
                msg(S, "null"),
                msg(S, "sleep", None, 0.1),
                msg(S, "checkpoint"),
                msg(S, "close_run"),
            ]
            c = copy.deepcopy(base)
            c["variant"] = f"status-fails-inside-the-checkpoint-{j}"
            c["script"][ci]["plan"] = plan
            for dev in c["devices"].values():
                dev.pop("faults", None)
            c["devices"][m]["velocity"] = 1.0
            c["devices"][m]["faults"] = {"set#0": {"kind": "status_fail", "exc": "RuntimeError", "delay": rng.choice([0.1, 0.25, 0.4])}}
            c["re"].pop("preprocessors", None)
            c["script"][ci]["inject"] = [{"id": "i0", "at": {"msg": rng.choice([2, 3]), "plus": 0}, "do": "dpause"}]
            c["script"][ci]["decisions"] = [{"do": "resume"}, {"do": "resume"}]
            c["script"][ci]["final"] = "resume"
            yield c


def check(res):
    out = []
    v = View(res)
    if res.aborted:
        return out
    inv = v.invocations[0] if v.invocations else None
    # locate the main invocation (the one with the injection)
    target = None
    for i in v.invocations:
        if any(b.d["do"] == "dpause" for c in i.calls for b, _ in c.injections):
            target = i
    if target is None:
        return out
    acc = [(b, e) for c in target.calls for b, e in c.accepted("dpause")]
    if len(acc) != 1:
        return out  # rejected (e.g. the plan had already finished): nothing to assert
    b, e = acc[0]
    if not e.d.get("dpr"):
        out.append(V("flag-not-set", "deferred_pause_requested is False right after an accepted deferred request"))
    evs = target.events
    later_msgs = [m for m in evs if m.kind == "msg" and m.seq > e.seq]
    # the request is accepted inside the loop before inject_end is recorded: the checkpoint that counts is
    # the first one processed after the *acceptance*, which lies between inject_begin and inject_end
    between = [m for m in evs if m.kind == "msg" and b.seq < m.seq < e.seq]
    cps = [m for m in between + later_msgs if m.d["cmd"] == "checkpoint"]
    first_call = target.calls[0]
    if between and any(m.d["cmd"] == "checkpoint" for m in between):
        return out  # acceptance raced with a checkpoint inside the request itself: ambiguous which side it fell
    if not cps:
        # no checkpoint follows: plan completes normally, flag stays True until the next plan starts
        if first_call.outcome != "return":
            out.append(V("paused-without-checkpoint", f"no checkpoint followed the deferred request but the call ended {first_call.outcome}/{first_call.exc} in state {first_call.state}"))
        elif not first_call.end.d["dpr"]:
            out.append(V("flag-cleared-early", "deferred request with no later checkpoint: flag is False after the plan completed"))
        nxt = [i for i in v.invocations if i.calls and i.calls[0].begin.seq > first_call.end.seq]
        if nxt and nxt[0].calls[0].end is not None and nxt[0].calls[0].end.d["dpr"]:
            out.append(V("flag-survived-next-plan", "deferred_pause_requested still True after the next plan ran"))
        return out
    c = cps[0]
    after_c = [m for m in first_call.of("msg") if m.seq > c.seq]
    if first_call.outcome != "raise" or first_call.exc != "RunEngineInterrupted" or first_call.state != "paused":
        out.append(V("did-not-pause-at-checkpoint", f"call ended {first_call.outcome}/{first_call.exc} in state {first_call.state} although checkpoint #{c.d['mid']} followed the deferred request"))
        return out
    if after_c:
        out.append(V("message-after-checkpoint", f"{len(after_c)} message(s) processed after the checkpoint before pausing: {[m.d['cmd'] for m in after_c][:4]}"))
    if first_call.end.d["dpr"]:
        out.append(V("flag-still-set-when-paused", "deferred_pause_requested is still True while paused at the checkpoint"))
    # resume replays nothing
    seen = {m.d["mid"] for m in first_call.of("msg")}
    if len(target.calls) > 1 and target.calls[1].api == "resume":
        r = target.calls[1]
        msgs = r.of("msg")
        if msgs and msgs[0].d["mid"] in seen:
            out.append(V("resume-replayed", f"resume from a deferred pause replayed message #{msgs[0].d['mid']} ({msgs[0].d['cmd']})"))
        if r.end is not None and r.end.d["dpr"]:
            out.append(V("flag-set-after-resume", "deferred_pause_requested True after resume"))
    return out
