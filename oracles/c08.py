"""C08 - RunEngineInterrupted means paused unless the plan was terminated.

For each RE(...) / RE.resume() made by the user thread:
  raised RunEngineInterrupted
      and a terminating cause was accepted during the call (abort/stop/halt from any thread, or a
      pause/suspension accepted while the plan was non-resumable)  => state idle, every run closed
      otherwise                                                   => state 'paused' and the next
                                                                      RE.resume() is accepted
  returned normally => the top-level plan generator finished (plan-side log) and state idle.
The pause injection point is swept over all handles of the call, up to and beyond the end of _run.
Ambiguity rule: nothing is asserted about *which* of paused/idle when both a pause and a terminating
request were accepted in the same call (either order is legitimate); the states must still be one of
the two and consistent with the open runs.
"""

from . import generic
from .common import V, View, docs_by_run

ID = "C08"
TITLE = "RunEngineInterrupted means paused unless the plan was terminated"
QUICK = {"batches": 200, "wall": 50.0}
THOROUGH = {"batches": 6000, "wall": 900.0}


valid_case = generic.valid_case


def cases(seed, tier):
    # pauses dominate; some terminators; clear_checkpoint sections appear via plan_opts later
    yield from generic.interruption_cases(
        ID, seed, tier, kinds=["pause", "pause", "pause", "dpause", "abort", "stop", "halt"], K=(12, 20)
    )
    yield from raising_subscriber_cases(seed, tier)


def raising_subscriber_cases(seed, tier):
    """record_interruptions is on and a subscriber chokes on the record of the pause (its first 'event'): the
    pause request itself fails in the requester's thread - the engine is then either paused or still running the
    plan, never half-way (state 'pausing' until the plan ends)."""
    import copy

    from sim import gen
    from sim.dsl import msg

    rng = gen.rng_for(ID, seed, "raising-subscriber")
    specs = gen.gen_world(rng, flyers=0, p_async=0.2)
    pg = gen.PlanGen(rng, specs)
    S = pg.S
    head = [msg(S, "open_run"), msg(S, "checkpoint"), msg(S, "null"), msg(S, "sleep", None, 0.2), msg(S, "null")]
    body = head + pg.point(devices=pg.dets[:1], checkpoint=1.0) + [msg(S, "close_run")]
    base = {
        "prop": ID,
        "seed": seed,
        "sim": {"handle_cost": 0.0},
        "re": {"record_interruptions": True, "ignore_callback_exceptions": rng.random() < 0.3},
        "devices": specs,
        "suspenders": {},
        "callbacks": {"cbK": {"raise_at": {"event": [0]}}},
        "script": [
            {"do": "subscribe", "cb": "cbK", "name": "all", "token": "k0"},
            {"do": "call", "plan": body, "main": True},
            {"do": "call", "plan": [msg(S, "null")], "tag": "followup-null"},
        ],
    }
    for j in range(2 if tier == "quick" else 4):
        c = copy.deepcopy(base)
        c["variant"] = f"raising-subscriber-{j}"
        c["script"][1]["inject"] = [{"id": "p0", "at": {"msg": rng.choice([2, 3, 4, 5]), "plus": rng.choice([0, 1, 2])}, "do": rng.choice(["pause", "pause", "dpause"])}]
        c["script"][1]["decisions"] = [{"do": "resume"}, {"do": "resume"}]
        c["script"][1]["settle"] = "idle"
        yield c


def _terminating_cause(call, msgs_before_resumable):
    """Was a terminating request accepted during this call?"""
    if call.accepted("abort", "stop", "halt"):
        return True
    return False


def check(res):
    out = []
    v = View(res)
    if res.aborted:
        return out  # liveness is C07's
    plan_done = {e.seq for e in v.of("plan") if e.d["what"] == "plan_done"}
    for inv in v.invocations:
        resumable = True
        for ci, c in enumerate(inv.calls):
            if c.end is None or c.api not in ("call", "resume"):
                # abort/stop/halt decisions by the user are terminating by definition
                continue
            msgs = c.of("msg")
            nonresumable_section = False
            for m in msgs:
                if m.d["cmd"] == "clear_checkpoint":
                    resumable = False
            term = bool(c.accepted("abort", "stop", "halt"))
            paused_req = bool(c.accepted("pause", "dpause", "trip")) or any(m.d["cmd"] == "pause" for m in msgs)
            failed_pause = (not resumable) and paused_req
            if c.outcome == "raise" and c.exc == "RunEngineInterrupted":
                if term or failed_pause:
                    if not (term and paused_req and c.state == "paused") and c.state != "idle":
                        out.append(V("terminated-but-not-idle", f"{c.api}: terminating cause accepted, state {c.state}", state=c.state))
                    if c.state == "idle":
                        # every run closed
                        runs, _ = docs_by_run(inv.events)
                        for uid, docs in runs.items():
                            if not any(n == "stop" for _, n, _ in docs):
                                out.append(V("idle-with-open-run", f"run {uid[:8]} has no stop document although the engine is idle"))
                else:
                    if c.state != "paused":
                        done = any(e.kind == "plan" and e.d["what"] == "plan_done" for e in c.events)
                        out.append(
                            V(
                                "interrupted-but-not-paused",
                                f"{c.api} raised RunEngineInterrupted with no terminating cause but state is {c.state} (plan completed: {done})",
                                state=c.state,
                                plan_completed=done,
                            )
                        )
                    else:
                        # must be resumable: the next user decision, if it is a resume, must be accepted
                        nxt = inv.calls[ci + 1] if ci + 1 < len(inv.calls) else None
                        if nxt is not None and nxt.api == "resume" and nxt.end is not None:
                            if nxt.outcome == "raise" and nxt.exc == "TransitionError":
                                out.append(V("paused-but-resume-rejected", f"resume rejected: {nxt.end.d['text'][:200]}"))
            elif c.outcome == "return":
                if c.state != "idle":
                    out.append(V("returned-but-not-idle", f"{c.api} returned normally with state {c.state}", state=c.state))
                if not any(e.kind == "plan" and e.d["what"] == "plan_done" for e in inv.events if e.seq <= c.end.seq):
                    out.append(V("returned-before-plan-completed", f"{c.api} returned normally but the plan generator never finished"))
    return out
