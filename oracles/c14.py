"""C14 - Concurrent runs with different run keys stay independent.

Workload: plans that keep 2-3 runs open at once (explicit run= keys and set_run_key_wrapper), each run
reading its *own* detector into its own streams (so every event is attributable to one key), with a
duplicate open_run of an already-open key inside a logging try/except; under pause/resume, suspension and
abort/stop/halt schedules.
Oracle: every event's descriptor belongs to the run that was opened with the key its create/save carried
(checked through the data keys: a run only ever contains its own detector's keys); C01 (lifecycle) and C05
(numbering) hold for each run on its own and no document of one run names another; an open_run whose key
is already open is answered with IllegalMessageSequence thrown at that yield, emits no second RunStart,
and the open runs continue and close normally.
"""

import copy

from sim import gen
from sim.dsl import msg

from . import generic
from .c01 import check_docs
from .c05 import check_numbering
from .common import V, View, docs_by_run

ID = "C14"
TITLE = "Concurrent runs with different run keys stay independent"
QUICK = {"batches": 150, "wall": 50.0}
THOROUGH = {"batches": 5000, "wall": 900.0}

valid_case = generic.valid_case
SHRINK_PLAN = False
KEYS = ["A", "B", None]


def keyed_plan(pg, nkeys):
    rng, S = pg.rng, pg.S
    keys = KEYS[:nkeys]
    det_of = {k: pg.dets[i % len(pg.dets)] for i, k in enumerate(keys)}
    body = [msg(S, "open_run", None, run=k, tag=str(k)) for k in keys]
    dup_done = False
    order = []
    for k in keys:
        order += [k] * rng.choice([1, 2, 3])
    rng.shuffle(order)
    # some runs are closed as soon as their last data point is taken, while the others are still being filled
    # (closing one run must not disturb the numbering or the replay of the runs that stay open)
    early = {k for k in keys if rng.random() < 0.6}
    last_pos = {k: max(i for i, x in enumerate(order) if x == k) for k in keys}
    closed = set()
    for pos, k in enumerate(order):
        d = det_of[k]
        stream = rng.choice(["primary", "aux"]) + "_" + str(k)
        pt = [msg(S, "checkpoint")] if rng.random() < 0.55 else []
        g = pg.group()
        pt += [msg(S, "trigger", d, group=g), msg(S, "wait", None, group=g)]
        pt += [msg(S, "create", None, name=stream, run=k), msg(S, "read", d, run=k), msg(S, "save", None, run=k)]
        body.extend(pt)
        if not dup_done and rng.random() < 0.3:
            dup_done = True
            body.append(
                {
                    "op": "try",
                    "site": S(),
                    "body": [msg(S, "open_run", None, run=k, tag="dup")],
                    "handlers": [{"exc": "IllegalMessageSequence", "body": [msg(S, "null")]}],
                }
            )
        if k in early and pos == last_pos[k] and pos != len(order) - 1:
            body.append(msg(S, "close_run", None, run=k))
            closed.add(k)
    closing = [k for k in keys if k not in closed]
    rng.shuffle(closing)
    body += [msg(S, "close_run", None, run=k) for k in closing]
    return body, det_of


def cases(seed, tier):
    rng = gen.rng_for(ID, seed)
    specs = gen.gen_world(rng, dets=2, flyers=0, p_async=0.3)
    specs["d3"] = {"kind": "det", "base": 9.0, "trigger_delay": 0.01, "coef": {}}
    specs["sigS"] = {"kind": "signal", "initial": 0}
    pg = gen.PlanGen(rng, specs)
    nkeys = rng.choice([2, 2, 3])
    body, det_of = keyed_plan(pg, nkeys)
    S = pg.S
    case = {
        "prop": ID,
        "seed": seed,
        "sim": {"handle_cost": rng.choice([0.0, 0.0, 1e-4])},
        "re": {"record_interruptions": rng.random() < 0.3},
        "devices": specs,
        "suspenders": {"s0": {"cls": "SuspendBoolHigh", "signal": "sigS", "kwargs": {"sleep": rng.choice([0, 0.5])}}},
        "script": [{"do": "install_suspender", "sus": "s0"}, {"do": "call", "plan": body, "main": True, "det_of": {str(k): v for k, v in det_of.items()}}],
    }
    case["script"].append({"do": "call", "plan": [msg(S, "null")], "tag": "followup-null"})
    retarget = generic.second_suspender(case, ID, seed)
    dry, dv, n = generic.dry_run(case)
    yield case
    ci = generic.main_index(case)
    K = 12 if tier == "quick" else 24
    for j in range(K):
        c = copy.deepcopy(case)
        c["variant"] = j
        inj = gen.gen_injections(rng, n, kinds=["pause", "pause", "trip", "abort", "stop", "halt"], k=rng.choice([1, 1, 2]), slack=3)
        for i in inj:
            if i["do"] == "trip":
                i["args"] = retarget(generic.trip_args(rng))
        c["script"][ci]["inject"] = inj
        c["script"][ci]["decisions"] = [{"do": rng.choice(["resume", "resume", "resume", "abort"])} for _ in range(4)]
        yield c
    # a subscriber fails while it is handed the RunStart of one of the runs (an earlier subscriber has received it
    # already): the run is open as far as the documents are concerned, so it still gets its RunStop - from the plan's
    # own close_run if the plan copes with the error, from the engine's clean-up otherwise - and the other runs are
    # not disturbed
    for j in range(2):
        c = copy.deepcopy(case)
        c["variant"] = f"subscriber-raises-on-start-{j}"
        c["callbacks"] = {"cbY": {}, "cbX": {"raise_at": {"start": [rng.randrange(nkeys)]}}}
        c["script"] = [{"do": "subscribe", "cb": "cbY", "name": "all", "token": "y0"}, {"do": "subscribe", "cb": "cbX", "name": "all", "token": "x0"}] + c["script"]
        if j == 1:
            plan = c["script"][generic.main_index(c)]["plan"]
            for i in range(nkeys):
                plan[i] = {"op": "try", "site": S(), "body": [plan[i]], "handlers": [{"exc": "Exception", "body": [msg(S, "null")], "reraise": False}]}
        yield c


def check(res):
    out = []
    v = View(res)
    if res.aborted:
        return out
    inv = v.invocations[0]
    evs = inv.events
    step = next(s for s in res.case["script"] if s.get("main"))
    det_of = step["det_of"]
    specs = res.case["devices"]
    keys_of_det = {d: set(specs[d].get("keys") or [d]) for d in specs if specs[d]["kind"] in ("det", "pdet")}
    # run key -> uid through the open_run command results
    uid_key = {}
    msgs = {e.d["mid"]: e for e in evs if e.kind == "msg"}
    for e in evs:
        if e.kind == "cmd" and e.d["cmd"] == "open_run":
            m = msgs.get(e.d["mid"])
            if m is None:
                continue
            if e.d["end"] == "ok":
                if m.d["kw"].get("tag") == "dup":
                    out.append(V("duplicate-key-accepted", f"open_run for the already open key {m.d['run']!r} was accepted (uid {e.d['value']})"))
                uid_key[e.d["value"]] = str(m.d["run"])
            elif m.d["kw"].get("tag") == "dup" and e.d["end"] == "error" and e.d.get("exc") != "IllegalMessageSequence":
                out.append(V("duplicate-key-wrong-error", f"open_run for an open key raised {e.d.get('exc')}"))
            elif e.d["end"] == "error" and m.d["kw"].get("tag") != "dup":
                # the RunStart went out and a subscriber then failed on it: the run is open, under this key
                for d in evs:
                    if d.kind == "doc" and d.d["name"] == "start" and m.seq < d.seq < e.seq:
                        uid_key[d.d["doc"]["uid"]] = str(m.d["run"])
    # the duplicate must be thrown at its own yield
    for e in evs:
        if e.kind == "plan" and e.d["what"] == "yield" and e.d["cmd"] == "open_run":
            m = msgs.get(e.d["mid"])
            if m is not None and m.d["kw"].get("tag") == "dup":
                nxt = next((p for p in evs if p.kind == "plan" and p.seq > e.seq and p.d.get("mid") == e.d["mid"]), None)
                executed = any(c.kind == "cmd" and c.d["mid"] == e.d["mid"] and c.d["end"] == "error" for c in evs)
                if nxt is not None and (nxt.d["what"] == "closed" or nxt.d.get("exc") in ("RequestAbort", "RequestStop", "FailedPause", "PlanHalt")):
                    continue  # the plan was halted/aborted/stopped before the rejection could be delivered
                if executed and (nxt is None or nxt.d["what"] != "thrown" or nxt.d.get("exc") != "IllegalMessageSequence"):
                    out.append(V("duplicate-key-not-thrown-at-site", f"duplicate open_run at {e.d['site']}: generator next saw {nxt.d if nxt else None}"))
    # documents per run only contain that key's detector
    runs, orphans = docs_by_run(evs)
    for o in orphans:
        out.append(V("orphan-document", f"{o.d['name']} does not belong to any emitted run"))
    nstarts = sum(1 for e in evs if e.kind == "doc" and e.d["name"] == "start")
    if nstarts != len(uid_key):
        out.append(V("start-count", f"{nstarts} RunStart documents for {len(uid_key)} accepted open_run messages"))
    for uid, docs in runs.items():
        key = uid_key.get(uid)
        if key is None:
            out.append(V("run-without-key", f"run {uid[:8]} was not returned by any open_run"))
            continue
        allowed = keys_of_det.get(det_of.get(key), set())
        for _, name, doc in docs:
            if name == "descriptor" and doc["name"] != "interruptions":
                bad = set(doc["data_keys"]) - allowed
                if bad:
                    out.append(V("foreign-data-in-run", f"run key {key!r}: descriptor {doc['name']!r} contains {sorted(bad)} which belong to another key's detector", key=key))
                if not doc["name"].endswith("_" + key):
                    out.append(V("foreign-stream-in-run", f"run key {key!r} contains stream {doc['name']!r}", key=key))
            elif name == "event":
                bad = set(doc["data"]) - allowed - {"interruption"}
                if bad:
                    out.append(V("foreign-data-in-run", f"run key {key!r}: event contains {sorted(bad)}", key=key))
    if inv.calls and inv.calls[-1].end is not None:
        out.extend(check_docs(evs, idle_at_end=(inv.final_state == "idle")))
        out.extend(check_numbering(evs))
    # fault-free: every run closes successfully even though a duplicate open_run was attempted
    if not any(e.kind == "inject_begin" for e in evs) and inv.calls[-1].outcome == "return":
        for uid, docs in runs.items():
            st = [d for _, n, d in docs if n == "stop"]
            if not st or st[0]["exit_status"] != "success":
                out.append(V("open-run-disturbed", f"run {uid[:8]} did not close normally after a rejected duplicate open_run"))
    return out
