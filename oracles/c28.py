"""C28 - count and repeat run the plan exactly num times with the right delays.

The clock seam: `time.time` is the simulator's wall clock (virtual, optionally jumping forwards or
backwards while the plan runs); the inner plan's duration is virtual device time (trigger delays, motor
motion), so 'elapsed' takes realistic and exactly known values.
Workload: repeat(plan, num, delay) and count(dets, num, delay) with num in {1..4, None (ended by a scheduled
RE.stop())}, scalar / list / iterator delays (sufficient, one short, far too short), delays shorter and
longer than the inner plan, None entries, wall-clock jumps.
Oracle: the inner plan runs exactly num times (never more than the delays allow), each repetition preceded
by a 'checkpoint'; after repetition i a 'sleep' message exists iff delay_i - elapsed_i > 0 and its argument
equals delay_i - elapsed_i, with elapsed_i measured on that clock from the repetition's checkpoint to the
moment the sleep is issued; a sized delay sequence with fewer than num-1 entries raises ValueError before
anything runs, an unsized one raises it when it runs out.
"""

import copy

from sim import gen
from sim.dsl import msg

from . import generic
from .common import V, View

ID = "C28"
TITLE = "count and repeat run the plan exactly num times with the right delays"
QUICK = {"batches": 400, "wall": 50.0}
THOROUGH = {"batches": 12000, "wall": 900.0}
SHRINK_PLAN = False


def cases(seed, tier):
    rng = gen.rng_for(ID, seed)
    specs = gen.gen_world(rng, motors=1, dets=1, flyers=0, p_async=0.2, pausable=0.0)
    specs["d1"]["trigger_delay"] = rng.choice([0.0, 0.3, 1.0])
    pg = gen.PlanGen(rng, specs)
    S = pg.S
    num = rng.choice([1, 2, 3, 4, None])
    n_eff = num if num is not None else 6
    form = rng.choice(["scalar", "scalar", "list", "list", "iter", "short_list", "short_iter", "none_entries"])
    dvals = [rng.choice([0.0, 0.1, 0.5, 2.0, 5.0]) for _ in range(max(n_eff - 1, 0))]
    if form == "scalar":
        d = rng.choice([0, 0.1, 0.5, 2.0, None])
        delay, delays = d, [d] * 50
    elif form == "list":
        extra = [1.0] * rng.choice([0, 0, 2])
        delay, delays = dvals + extra, dvals + extra
    elif form == "iter":
        delay, delays = {"iter": dvals + [1.0]}, dvals + [1.0]
    elif form == "short_list":
        cut = dvals[: max(len(dvals) - rng.choice([1, 2]), 0)]
        delay, delays = cut, cut
    elif form == "short_iter":
        cut = dvals[: max(len(dvals) - rng.choice([1, 2]), 0)]
        delay, delays = {"iter": cut}, cut
    else:
        dv = [None if rng.random() < 0.5 else x for x in dvals] + [None]
        delay, delays = dv, dv
    use_count = rng.random() < 0.5
    if use_count:
        body = [{"op": "plan", "name": "count", "args": [{"devs": ["d1"]}], "kw": {"num": num, "delay": delay}}]
    else:
        g = pg.group()
        inner = [msg(S, "trigger", "d1", group=g), msg(S, "wait", None, group=g), msg(S, "null")]
        body = [{"op": "stub", "name": "repeat", "args": [{"planfn": inner}, num, delay]}]
    case = {
        "prop": ID,
        "seed": seed,
        "sim": {"handle_cost": rng.choice([0.0, 1e-4])},
        "re": {},
        "devices": specs,
        "expect": {"num": num, "delays": delays, "form": form, "count": use_count},
        "script": [{"do": "call", "plan": body, "main": True}],
    }
    inj = []
    if num is None:
        inj.append({"id": "s", "at": {"step": rng.randrange(20, 160)}, "do": "stop"})
    if rng.random() < 0.4:
        inj.append({"id": "j", "at": {"step": rng.randrange(3, 60)}, "do": "wall_jump", "args": {"dt": rng.choice([3.0, -3.0, 0.25, 100.0])}})
    inj.sort(key=lambda x: x["at"]["step"])
    case["script"][0]["inject"] = inj
    yield case
    # count() with a per-shot plan that starts a move it does not wait for and copes with a failure inside the shot:
    # the status fails at some moment during the second shot (swept over the shot, including the instant at which
    # trigger_and_read's 'create' is processed); the handled failure costs that shot's event at most, never a repetition
    for j in range(3):
        S2 = pg.S
        shot = [
            msg(S2, "set", "m1", {"var": "never"} if False else 1.0 + j, group=f"free{j}"),
            {"op": "try", "site": S2(), "body": [{"op": "stub", "name": "trigger_and_read", "args": [{"devs": ["d1"]}]}], "handlers": [{"exc": "FailedStatus", "body": [msg(S2, "null")], "reraise": False}]},
        ]
        c = {
            "prop": ID,
            "seed": seed,
            "variant": f"handled-failure-in-shot-{j}",
            "sim": {"handle_cost": rng.choice([0.0, 1e-4, 1e-3])},
            "re": {},
            "devices": copy.deepcopy(specs),
            "expect": {"num": 4, "handled": True},
            "script": [{"do": "call", "plan": [{"op": "plan", "name": "count", "args": [{"devs": ["d1"]}], "kw": {"num": 4, "delay": 0, "per_shot": {"planfn": shot}}}], "main": True}],
        }
        td = rng.choice([0.0, 0.1, 0.3])
        c["devices"]["d1"]["trigger_delay"] = td
        c["devices"]["d1"].pop("async", None)
        c["devices"]["m1"]["velocity"] = 0.01  # the move outlasts the shots: its status is pending throughout
        c["devices"]["m1"]["faults"] = {"set#1": {"kind": "status_fail", "exc": "RuntimeError", "delay": round(td + rng.choice([0.0, 0.0, 1e-4, 2e-4, 5e-4, 1e-3, 2e-3, 3e-3, 5e-3]), 6)}}
        yield c


def check(res):
    out = []
    v = View(res)
    res.notes = {}
    if res.aborted:
        return out
    exp = res.case["expect"]
    if exp.get("handled"):
        inv = v.invocations[0]
        last = inv.calls[-1]
        res.notes["handled_failure_in_shot"] = 1
        shots = len([e for e in inv.events if e.kind == "msg" and e.d["cmd"] == "trigger"])
        thrown_at = [e.d.get("site") for e in inv.events if e.kind == "plan" and e.d["what"] == "thrown" and e.d["exc"] == "FailedStatus"]
        if last.outcome == "raise" and last.exc == "FailedStatus":
            return out  # the failure arrived outside the shot's own try block: the plan legitimately ends
        if last.outcome != "return":
            out.append(V("handled-failure-broke-the-repetitions", f"count(num=4) whose only failure was handled inside the shot ended {last.outcome}/{last.exc}: {last.end.d['text'][:120]} after {shots} shots", shots=shots))
        elif shots != exp["num"]:
            out.append(V("repetition-count", f"{shots} repetitions ran, expected {exp['num']} (one failure, handled inside the shot)", got=shots, want=exp["num"]))
        return out
    num, delays, form = exp["num"], exp["delays"], exp["form"]
    inv = v.invocations[0]
    last = inv.calls[-1]
    msgs = [e for e in inv.events if e.kind == "msg"]
    # repetitions: each starts at a checkpoint issued by repeat (for count: the one before each reading)
    reps = []
    cur = None
    for m in msgs:
        c = m.d["cmd"]
        if c == "checkpoint":
            # (count's per-shot plan issues a checkpoint of its own right after repeat's: the first one counts)
            if cur is None or cur["inner"] > 0:
                cur = {"cp": m, "inner": 0, "sleep": None, "after": None}
                reps.append(cur)
        elif cur is not None:
            if c == "sleep" and cur["sleep"] is None and cur["inner"] > 0:
                cur["sleep"] = m
            elif c in ("trigger",) and cur["sleep"] is None:
                cur["inner"] += 1
    sized_short = form == "short_list" and num and num - 1 > len(delays)
    if sized_short:
        if last.outcome != "raise" or last.exc != "ValueError":
            out.append(V("short-delays-accepted", f"num={num} with {len(delays)} delays ended {last.outcome}/{last.exc}"))
        if any(r["inner"] for r in reps):
            out.append(V("ran-before-rejecting-delays", f"{sum(1 for r in reps if r['inner'])} repetitions ran although the delay list is too short"))
        return out
    ran = [r for r in reps if r["inner"] > 0]
    for r in ran:
        if r["inner"] != 1:
            out.append(V("inner-plan-count-per-repetition", f"{r['inner']} executions of the inner plan after one checkpoint"))
    stopped = any(c.accepted("stop") for c in inv.calls)
    allowed = len(delays) + 1 if form in ("short_iter",) or (form == "iter") else None
    if num is not None and not stopped:
        want = num
        if form == "short_iter" and num - 1 > len(delays):
            want = len(delays) + 1
            if last.outcome != "raise" or last.exc != "ValueError":
                out.append(V("short-iterator-not-reported", f"delay iterator ran out but the call ended {last.outcome}/{last.exc}"))
        if len(ran) != want:
            out.append(V("repetition-count", f"{len(ran)} repetitions ran, expected {want} (num={num}, {len(delays)} delays, form {form})", got=len(ran), want=want))
    if num is None and form in ("iter", "short_iter", "list", "none_entries", "short_list") and len(ran) > len(delays) + 1:
        out.append(V("more-repetitions-than-delays", f"{len(ran)} repetitions with only {len(delays)} delays"))
    # delays
    for i, r in enumerate(ran):
        if i >= len(delays):
            break
        d = delays[i]
        nxt = ran[i + 1]["cp"] if i + 1 < len(ran) else None
        is_last = num is not None and i + 1 == num
        if is_last and form in ("list", "short_list", "iter", "short_iter", "none_entries") and i >= len(delays):
            continue
        # moment at which repeat() computes the remainder: the handle in which the sleep (or, without a
        # sleep, the next checkpoint) is issued
        at = r["sleep"] or nxt
        if at is None:
            continue
        res.notes["delays_checked"] = res.notes.get("delays_checked", 0) + 1
        if d is None:
            if r["sleep"] is not None:
                out.append(V("sleep-for-none-delay", f"repetition {i}: delay None but a sleep({r['sleep'].d['args']}) was issued"))
            continue
        elapsed = at.d["wall"] - r["cp"].d["wall"]
        remainder = d - elapsed
        if r["sleep"] is None:
            if remainder > 1e-9 and not (is_last):
                out.append(V("missing-sleep", f"repetition {i}: delay {d}, elapsed {elapsed:.6f}: {remainder:.6f} s were left but no sleep was issued", i=i))
        else:
            arg = r["sleep"].d["args"][0]
            if remainder <= 0:
                out.append(V("sleep-with-nothing-left", f"repetition {i}: delay {d}, elapsed {elapsed:.6f} but sleep({arg}) was issued"))
            elif abs(arg - remainder) > 1e-6:
                out.append(V("wrong-sleep", f"repetition {i}: sleep({arg}) but delay {d} - elapsed {elapsed:.6f} = {remainder:.6f}", i=i))
    return out


def nontrivial(res):
    return bool(getattr(res, "notes", {}).get("delays_checked"))
