"""C07 - RunEngine lifecycle never takes an illegal transition or gets stuck.

Oracle (only what the statement says):
  * every observed state change is in the documented transition table;
  * after each blocking public call of the user thread returned or raised, state in {idle, paused};
  * liveness: a case in which a caller is blocked and nothing can ever run again is 'stuck';
    the step/time budget must not be exhausted;
  * usability: follow-up calls on the same engine behave like on a fresh engine.
Requests from *other* threads (injections) may legitimately return while the engine is in a
transient state (abort() issued while running does not wait for the run to end); only counted.
"""

from . import generic
from .common import TRANSITIONS, V, View

ID = "C07"
TITLE = "RunEngine lifecycle never takes an illegal transition or gets stuck"
QUICK = {"batches": 200, "wall": 50.0}
THOROUGH = {"batches": 6000, "wall": 900.0}


valid_case = generic.valid_case


def cases(seed, tier):
    yield from generic.interruption_cases(ID, seed, tier, dev_faults=0.2)
    yield from generic.resume_window_cases(ID, seed, tier)
    yield from generic.endless_wait_cases(ID, seed, tier)


def check(res):
    out = []
    v = View(res)
    res.notes = {}
    if res.aborted:
        out.append(V("stuck:" + res.aborted[0], f"simulation aborted: {res.aborted}", kind=res.aborted[0]))
        return out
    for e in v.of("state"):
        new, old = e.d["new"], e.d["old"]
        if new not in TRANSITIONS.get(old, []):
            out.append(V("illegal-transition", f"{old} -> {new} at seq {e.seq}", old=old, new=new))
        if new == "panicked":
            out.append(V("panicked", f"engine panicked at seq {e.seq}"))
    for c in v.calls:
        if c.end is None:
            out.append(V("call-never-returned", f"{c.api} has no end record"))
            continue
        if c.api in ("call", "resume", "abort", "stop", "halt") and c.state not in ("idle", "paused"):
            out.append(V("transient-state-after-call", f"{c.api} returned with state {c.state}", api=c.api, state=c.state))
        # a public call ends by returning, by RunEngineInterrupted, by TransitionError (request illegal in that
        # state) or with the plan's own failure (here: an injected device fault or a failed status)
        if c.outcome == "raise" and not str(c.exc).startswith(("RunEngineInterrupted", "TransitionError", "Injected", "FailedStatus", "PlanError")):
            out.append(V("unexpected-exception-from-api:" + str(c.exc), f"{c.api} raised {c.exc}: {c.end.d['text'][:200]}", api=c.api, exc=c.exc))
    for e in v.of("inject_end"):
        if e.d["state"] not in ("idle", "paused", "running"):
            res.notes["requester_returned_in_transient_state"] = res.notes.get("requester_returned_in_transient_state", 0) + 1
        # a request is accepted only from a state that has a transition to what it asks for: abort() while already
        # aborting (stop() while stopping, halt() while halting, anything but halt/abort while pausing ...) is refused
        # (judged only where the state at the time of the call cannot have become a legal one by the time the request
        # reaches the loop: from aborting / stopping / halting the engine only goes to idle)
        target = {"abort": "aborting", "stop": "stopping", "halt": "halting", "pause": "pausing"}.get(e.d["do"])
        if target and e.d["outcome"] == "ok" and e.d.get("state0") in ("aborting", "stopping", "halting"):
            out.append(V("request-accepted-in-illegal-state", f"{e.d['do']}() was accepted while the engine was {e.d['state0']}: {e.d['state0']} -> {target} is not a transition", do=e.d["do"], state0=e.d["state0"]))
    # usability of the engine for the next call
    steps = [s for s in res.case["script"] if s["do"] == "call"]
    user_calls = [c for c in v.calls if c.api == "call"]
    for s, c in zip(steps, user_calls):
        tag = s.get("tag")
        if not tag:
            continue
        if c.outcome == "raise" and str(c.exc).startswith(("Injected", "FailedStatus")) and c.state == "idle":
            continue  # a scheduled device fault landed in the follow-up call: a legitimate failure
        if c.outcome != "return" or c.state != "idle":
            out.append(V("engine-unusable-after", f"{tag}: outcome={c.outcome} exc={c.exc} state={c.state} {c.end.d['text'][:200]}", tag=tag))
            continue
        cmds = [m.d["cmd"] for m in c.of("msg")]
        if cmds and cmds[0] == "wait_for":  # a still-tripped suspender legitimately delays the start (C31)
            cmds = cmds[1:]
        if any(e.kind == "sus_request" for e in c.events):
            # a flapping signal of the main call's schedule went bad again during the follow-up call: it is suspended
            # like any other plan (the engine's own suspension messages are not the plan's)
            res.notes["followup_suspended_by_late_flap"] = res.notes.get("followup_suspended_by_late_flap", 0) + 1
            cmds = [x for x in cmds if x not in ("_start_suspender", "_resume_from_suspender", "wait_for", "rewindable")]
        if tag == "followup-null" and cmds != ["null"]:
            out.append(V("followup-trace-differs", f"{tag}: messages {cmds}", tag=tag))
        if tag == "followup-run":
            intr = {d.d["doc"]["uid"] for d in c.of("doc") if d.d["name"] == "descriptor" and d.d["doc"].get("name") == "interruptions"}
            # (the record of a suspension by a late flap of the main call's schedule is not the plan's data)
            names = [d.d["name"] for d in c.of("doc") if d.d["doc"].get("name") != "interruptions" and not (d.d["name"] == "event" and d.d["doc"].get("descriptor") in intr)]
            if res.case.get("re", {}).get("preprocessors"):
                # SupplementalData adds baseline / monitor / flyer streams to every run: compare the primary stream only
                prim = {d.d["doc"]["uid"] for d in c.of("doc") if d.d["name"] == "descriptor" and d.d["doc"].get("name") == "primary"}
                names = [
                    d.d["name"]
                    for d in c.of("doc")
                    if d.d["name"] in ("start", "stop") or (d.d["name"] == "descriptor" and d.d["doc"]["uid"] in prim) or (d.d["name"] == "event" and d.d["doc"].get("descriptor") in prim)
                ]
            if names != ["start", "descriptor", "event", "stop"]:
                out.append(V("followup-trace-differs", f"{tag}: documents {names}", tag=tag))
    end = v.of("end")
    if end and end[-1].d["state"] != "idle":
        out.append(V("not-idle-at-end", f"final state {end[-1].d['state']}"))
    return out
