"""C41 - Monitors report only while their run is open and running.

Every signal update delivered by the (simulated) control-system thread carries a unique value, so each
monitor event is attributable to one update.  For each update of a monitored signal:
  * delivered while the run is open, the monitor installed and the engine running -> exactly one event
    with that value in the signal's stream;
  * delivered while the engine is paused, or while a suspension is in effect -> no event;
  * delivered after 'unmonitor', after the run closed, or at idle -> no event;
and updates after a resume are reported again (exactly once each).  Whenever the engine is idle, and after
'unmonitor', the signal's subscription table holds no engine callback.
Not asserted: updates delivered in the transient windows 'pausing' / 'suspending' and within the handle in
which monitor/unmonitor/close_run themselves run (either answer is legitimate there).
Overlapping interruptions are asserted like any other: while any suspension is still in effect (a second
suspension released before the first, a pause and resume inside a suspension) no update is reported.
"""

from . import streams
from .common import V, View, monitor_lost_in_flight

ID = "C41"
TITLE = "Monitors report only while their run is open and running"
QUICK = {"batches": 150, "wall": 50.0}
THOROUGH = {"batches": 5000, "wall": 900.0}
SHRINK_PLAN = False


def cases(seed, tier):
    base = None
    for c in streams.stream_cases(ID, seed, tier, kinds=["pause", "trip", "put", "put", "put", "put"]):
        if base is None:
            base = c
        yield c
    yield from history_cases(seed, tier)
    yield from setup_cut_by_pause_cases(seed, tier, base)


def setup_cut_by_pause_cases(seed, tier, base):
    """A suspension is requested and, while its '_start_suspender' is being carried out (it has taken the monitors
    away already), a pause strikes; the user resumes while the suspender's signal is still bad: the suspension comes
    first, updates delivered after the resume are not reported until it has released."""
    import copy

    from sim import gen

    if base is None:
        return
    rng = gen.rng_for(ID, seed, "cut-by-pause")
    ci = next(i for i, s_ in enumerate(base["script"]) if s_.get("main"))
    for j in range(2 if tier == "quick" else 5):
        c = copy.deepcopy(base)
        c["variant"] = f"suspension-setup-cut-by-pause-{j}"
        st = rng.randrange(20, 90)
        c["script"][ci]["inject"] = [
            {"id": "t0", "at": {"step": st}, "do": "trip", "args": {"signal": "sigS", "value": 1, "release_value": 0, "after": rng.choice([0.3, 1.0])}},
            {"id": "p0", "at": {"step": st + rng.randrange(5, 12)}, "do": "pause"},
        ]
        c["script"][ci]["decisions"] = [
            {"do": "resume", "inject": [{"id": "u0", "at": {"step": rng.randrange(6, 16)}, "do": "put", "args": {"signal": "sig1", "value": 400 + j}}, {"id": "u1", "at": {"time": 2.0}, "do": "put", "args": {"signal": "sig1", "value": 410 + j}}]},
            {"do": "resume"},
        ]
        c["script"][ci]["final"] = "resume"
        yield c


def history_cases(seed, tier):
    """A history on one engine: an earlier call is ended (abort / stop / halt) while it is still suspended; the next
    call monitors a signal, pauses and resumes - monitoring resumes as in any other call (nothing of the
    suspension that never released is left behind)."""
    from sim import gen
    from sim.dsl import msg

    rng = gen.rng_for(ID, seed, "history")
    specs = gen.gen_world(rng, motors=1, dets=1, flyers=0, p_async=0.2)
    specs["sigS"] = {"kind": "signal", "initial": 0}
    pg = gen.PlanGen(rng, specs)
    S = pg.S
    for j in range(1 if tier == "quick" else 3):
        first = [msg(S, "open_run"), msg(S, "checkpoint"), msg(S, "sleep", None, 1.0), msg(S, "close_run")]
        second = [msg(S, "open_run"), msg(S, "monitor", "sig1", name="sig1_monitor"), msg(S, "checkpoint"), msg(S, "sleep", None, 1.0), msg(S, "null"), msg(S, "sleep", None, 1.0), msg(S, "unmonitor", "sig1"), msg(S, "close_run")]
        term = rng.choice(["abort", "stop", "halt"])
        yield {
            "prop": ID,
            "seed": seed,
            "variant": f"call-ended-while-suspended-then-monitor-{j}",
            "sim": {"handle_cost": 0.0},
            "re": {"record_interruptions": rng.random() < 0.5},
            "devices": specs,
            "suspenders": {"s0": {"cls": "SuspendBoolHigh", "signal": "sigS", "kwargs": {"sleep": 0}}},
            "script": [
                {"do": "install_suspender", "sus": "s0"},
                {"do": "call", "plan": first, "tag": "ended-while-suspended", "inject": [{"id": "t0", "at": {"time": 0.2}, "do": "trip", "args": {"signal": "sigS", "value": 1}}, {"id": "a0", "at": {"time": 0.6}, "do": term}], "settle": "idle"},
                {"do": "put", "signal": "sigS", "value": 0},
                {
                    "do": "call",
                    "plan": second,
                    "main": True,
                    "inject": [{"id": "u1", "at": {"time": 0.1}, "do": "put", "args": {"signal": "sig1", "value": 201}}, {"id": "p0", "at": {"time": 0.3}, "do": "pause"}],
                    "decisions": [
                        {"do": "put", "signal": "sig1", "value": 202},
                        {"do": "resume", "inject": [{"id": "u3", "at": {"time": 0.2}, "do": "put", "args": {"signal": "sig1", "value": 203}}, {"id": "u4", "at": {"time": 1.2}, "do": "put", "args": {"signal": "sig1", "value": 204}}]},
                    ],
                    "final": "resume",
                },
                {"do": "put", "signal": "sig1", "value": 299},
            ],
        }


def check(res):
    out = []
    v = View(res)
    res.notes = {}
    if res.aborted:
        return out
    # --- timeline of the monitor on sig1 and of the engine
    monitored = False  # engine callback installed and meant to be active
    state = "idle"
    suspended = 0
    transient = False
    expect = {}  # value -> expected count (0/1) or None (not asserted)
    got = {}
    sig = "sig1"
    last_struct_step = -10
    echo = 0
    overlapped = False
    redo_mids = set()
    msgs_since_running = 0
    start_steps = [e.step for e in v.evs if e.kind == "msg" and e.d["cmd"] == "_start_suspender"]
    for e in v.evs:
        if e.kind == "call_begin" and e.d["api"] == "call":
            overlapped = False
            suspended = 0
        k, d = e.kind, e.d
        if k == "msg":
            msgs_since_running += 1
        if k == "state":
            state = d["new"]
            if state == "running":
                msgs_since_running = 0
            if state == "paused" and suspended:
                overlapped = True  # a pause inside a suspension: its resume re-instates the monitors early
        elif k == "cmd" and d["cmd"] == "monitor" and d["end"] == "ok":
            m = next((x for x in v.evs if x.kind == "msg" and x.d["mid"] == d["mid"]), None)
            if m is not None and m.d["obj"] == sig:
                monitored = True
                last_struct_step = e.step
        elif k == "msg" and d["cmd"] in ("unmonitor",) and d["obj"] == sig:
            monitored = False
            last_struct_step = e.step
        elif k == "msg" and d["cmd"] == "monitor" and d["obj"] == sig:
            last_struct_step = e.step
        elif k == "doc" and d["name"] == "stop":
            monitored = False
            last_struct_step = e.step
        elif k == "msg" and d["cmd"] == "_start_suspender" and d["mid"] in redo_mids:
            redo_mids.discard(d["mid"])  # the second execution of a suspension that is already counted
        elif k == "msg" and d["cmd"] == "_start_suspender":
            suspended += 1
            if suspended > 1:
                overlapped = True
        elif k == "cmd" and d["cmd"] == "_start_suspender" and d["end"] != "ok":
            if d["end"] == "cancelled":
                # cut short by another interruption after it had already removed the monitors; it is executed again
                # (same Msg object): the suspension stays in effect, and two interruptions overlap (not asserted,
                # see the module docstring)
                overlapped = True
                redo_mids.add(d["mid"])
            else:
                suspended = max(0, suspended - 1)
        elif k == "msg" and d["cmd"] == "_resume_from_suspender":
            suspended = max(0, suspended - 1)
        elif k == "dev" and d["dev"] == sig and d["method"] == "put":
            val = d["value"]
            if e.step == last_struct_step or state in ("pausing", "suspending", "aborting", "stopping", "halting"):
                expect[val] = None
            elif any(0 <= s_ - e.step <= 1 for s_ in start_steps):
                # delivered in the very loop step (or the one before) in which a suspension starts - e.g. right after a
                # resume that found the suspension waiting: either answer is legitimate
                expect[val] = None
            elif redo_mids and state == "running" and not msgs_since_running:
                # the same window held open: the suspension's start was cut short by a pause, the resume brought the
                # monitors back, and a second pause request came before the start could be carried out again (no
                # message at all has been processed since the resume: a replay running first is not this window)
                expect[val] = None
            elif monitored and state == "running" and suspended == 0:
                expect[val] = 1
            else:
                expect[val] = 0
            expect_ctx = (monitored, state, suspended)
            res.notes[f"update:{'monitored' if monitored else 'unmonitored'}:{state}:{'suspended' if suspended else 'free'}"] = (
                res.notes.get(f"update:{'monitored' if monitored else 'unmonitored'}:{state}:{'suspended' if suspended else 'free'}", 0) + 1
            )
        elif k == "dev" and d["dev"] == sig and d["method"] == "subscribe" and d.get("cb") == "RE.monitor":
            echo += 1  # (re)subscribing reports the current value once: not an update
        elif k == "doc" and d["name"] == "event" and sig in d["doc"].get("data", {}):
            if echo:
                echo -= 1
                continue
            val = d["doc"]["data"][sig]
            got[val] = got.get(val, 0) + 1
    for val, want in expect.items():
        if want is None:
            continue
        n = got.get(val, 0)
        if n != want:
            out.append(
                V(
                    "monitor-event-count",
                    f"update value={val}: {n} event(s) emitted, expected {want}",
                    got=n,
                    want=want,
                )
            )
    # --- the options of the 'monitor' message reach every (re-)subscription of the engine's callback
    want_opts = None
    for e in v.evs:
        if e.kind == "msg" and e.d["cmd"] == "monitor" and e.d["obj"] == sig:
            want_opts = {k_: x for k_, x in e.d["kw"].items() if k_ != "name"}
        elif e.kind == "dev" and e.d["dev"] == sig and e.d["method"] == "subscribe" and e.d.get("cb") == "RE.monitor" and want_opts is not None:
            got_opts = dict(e.d.get("opts") or {})
            if got_opts != want_opts:
                out.append(V("monitor-subscribe-options-differ", f"{sig} was (re-)subscribed with {got_opts}, the 'monitor' message asked for {want_opts}", got=got_opts, want=want_opts))
                break
    # --- subscription ledger at idle
    for c in v.calls:
        if c.end is not None and c.state == "idle":
            for dname, subs in (c.end.d.get("subs") or {}).items():
                if "RE.monitor" in subs:
                    out.append(V("monitor-subscription-left", f"{dname} still holds an engine monitor callback while idle", dev=dname))
    return out


KNOWN_PREDICATES = {
    "monitor_lost_in_flight": lambda v, res: v["cls"] == "monitor-event-count" and v["facts"].get("want") == 1 and monitor_lost_in_flight(res),
}
