"""C40 - Interruption records are complete and uniquely numbered.

With recording enabled: every pause (the engine entered 'pausing'), every suspension (a '_start_suspender'
message) and every resume (RE.resume() accepted) that happened while a run was open produces exactly one
event in that run's 'interruptions' stream; their seq_nums are 1..n without repetition and
RunStop.num_events['interruptions'] == n.  With recording disabled no such descriptor exists.
"""

from . import streams
from .common import V, View, docs_by_run

ID = "C40"
TITLE = "Interruption records are complete and uniquely numbered"
QUICK = {"batches": 150, "wall": 50.0}
THOROUGH = {"batches": 5000, "wall": 900.0}
SHRINK_PLAN = False


def cases(seed, tier):
    import copy

    from sim import gen

    rng = gen.rng_for(ID, seed, "raising-subscriber")
    for i, c in enumerate(streams.stream_cases(ID, seed, tier, kinds=["pause", "pause", "trip", "trip", "put"])):
        yield c
        if i % 4 == 1 and c["re"].get("record_interruptions"):
            # a subscriber (registered after the recorder) that chokes on some event - possibly an interruption
            # record: each record still gets its own seq_num and is counted once
            c2 = copy.deepcopy(c)
            c2["variant"] = f"{c.get('variant')}-raising-subscriber"
            c2["callbacks"] = {"cbX": {"raise_at": {"event": sorted({rng.randrange(0, 6), rng.randrange(0, 10)})}}}
            c2["script"].insert(0, {"do": "subscribe", "cb": "cbX", "name": "all", "token": "x0"})
            yield c2
        if i % 4 == 2 and c["re"].get("record_interruptions"):
            # suspensions requested through RE.request_suspend() directly, every time with the same callable object:
            # each of them is a suspension of its own and gets its own record
            c3 = copy.deepcopy(c)
            c3["variant"] = f"{c.get('variant')}-direct-request-suspend"
            main = next(s_ for s_ in c3["script"] if s_.get("main"))
            steps = sorted(rng.sample(range(8, 120), 3))
            same_text = rng.choice([None, "beam lost"])  # (sometimes all with the same justification text too)
            main["inject"] = [{"id": f"rs{k}", "at": {"step": st}, "do": "rsuspend", "args": {"just": same_text or f"direct #{k}", "after": rng.choice([0.05, 0.3])}} for k, st in enumerate(steps)]
            main["decisions"] = [{"do": "resume"}] * 3
            yield c3
        if i % 4 == 3 and c["re"].get("record_interruptions") and c.get("suspenders"):
            # the suspender's signal goes bad while the engine is *paused* and is still bad at RE.resume(): however the
            # engine holds the plan back for it, every time it waits for a suspender with a run open is a suspension
            # and has its record
            c4 = copy.deepcopy(c)
            c4["variant"] = f"{c.get('variant')}-trip-while-paused"
            main = next(s_ for s_ in c4["script"] if s_.get("main"))
            sig = next(iter(c4["suspenders"].values()))["signal"]
            main["inject"] = [{"id": "p0", "at": {"step": rng.randrange(8, 80)}, "do": "pause"}]
            main["decisions"] = [
                {"do": "put", "signal": sig, "value": 1},
                {"do": "sleep", "t": 0.2},
                {"do": "resume", "inject": [{"id": "r0", "at": {"time": rng.choice([0.3, 1.0])}, "do": "put", "args": {"signal": sig, "value": 0}}]},
                {"do": "resume"},
            ]
            main["final"] = "resume"
            yield c4


def check(res):
    out = []
    v = View(res)
    if res.aborted:
        return out
    recording = bool(res.case.get("re", {}).get("record_interruptions"))
    for inv in v.invocations:
        if not inv.calls or inv.calls[-1].end is None:
            continue
        evs = inv.events
        runs, _ = docs_by_run(evs)
        for uid, docs in runs.items():
            start_seq = docs[0][0] if docs else None
            stop = next(((s, d) for s, n, d in docs if n == "stop"), None)
            if stop is None:
                continue
            stop_seq, stop_doc = stop
            descs = {d["uid"]: d for _, n, d in docs if n == "descriptor"}
            idesc = [d for d in descs.values() if d["name"] == "interruptions"]
            if not recording:
                if idesc:
                    out.append(V("interruptions-stream-when-disabled", "an 'interruptions' descriptor exists although recording is off"))
                continue
            if len(idesc) != 1:
                out.append(V("interruptions-descriptor-count", f"{len(idesc)} 'interruptions' descriptors in run {uid[:8]}"))
                continue
            iuid = idesc[0]["uid"]
            idesc_seq = next(s for s, n, d in docs if n == "descriptor" and d["uid"] == iuid)
            recs = [(s, d) for s, n, d in docs if n == "event" and d["descriptor"] == iuid]
            # what happened while the run was open (after its interruptions descriptor, before its stop)
            expected = []
            seen_sus = set()
            # a 'wait_for' that neither the plan yielded nor a suspension's helper plan (the first one after its
            # '_start_suspender'): the engine itself is holding the plan back for a suspender
            plan_mids = {e.d["mid"] for e in evs if e.kind == "plan" and e.d["what"] == "yield"}
            helper_waits = set()
            pending_sus = 0
            for e in evs:
                if e.kind == "msg" and e.d["cmd"] == "_start_suspender":
                    pending_sus += 1
                elif e.kind == "msg" and e.d["cmd"] == "wait_for" and e.d["mid"] not in plan_mids and e.d["mid"] not in helper_waits and pending_sus:
                    helper_waits.add(e.d["mid"])
                    pending_sus -= 1
            for e in evs:
                if not (idesc_seq < e.seq < stop_seq):
                    continue
                if e.kind == "state" and e.d["new"] == "pausing":
                    expected.append("pause")
                elif e.kind == "msg" and e.d["cmd"] == "_start_suspender":
                    # one record per suspension: a '_start_suspender' message that is executed again because
                    # another interruption cut its first execution short is still the same suspension
                    if e.d["mid"] not in seen_sus:
                        seen_sus.add(e.d["mid"])
                        expected.append("suspend")
                elif e.kind == "msg" and e.d["cmd"] == "wait_for" and e.d["mid"] not in plan_mids and e.d["mid"] not in helper_waits and e.d["mid"] not in seen_sus:
                    seen_sus.add(e.d["mid"])
                    expected.append("suspend")
                elif e.kind == "call_begin" and e.d["api"] == "resume":
                    expected.append("resume")
            got = [d["data"]["interruption"] for _, d in recs]
            norm = ["pause" if g == "pause" else "resume" if g == "resume" else "suspend" for g in got]
            if norm != expected:
                out.append(
                    V(
                        "interruption-records-differ",
                        f"run {uid[:8]}: recorded {norm} but the history shows {expected}",
                        recorded=len(norm),
                        expected=len(expected),
                    )
                )
            nums = [d["seq_num"] for _, d in recs]
            if nums != list(range(1, len(nums) + 1)):
                out.append(V("interruption-seq-nums", f"run {uid[:8]}: interruption seq_nums {nums}"))
            n_stop = stop_doc.get("num_events", {}).get("interruptions")
            if n_stop != len(recs):
                out.append(V("interruption-count-in-stop", f"run {uid[:8]}: RunStop counts {n_stop} interruptions, {len(recs)} were emitted"))
    return out
