"""C11 - Suspension holds the plan until release, then runs post-plan and rewinds.

Workload: 1-2 installed suspenders (distinct signals, different release delays and `sleep`s, optional
pre/post plans that move devices), tripped by the simulated control-system thread at arbitrary handles
of a generated plan (inside bundles, inside waits, during another suspension's helper plan).
For a suspension on signal X whose request reached the running plan ('_start_suspender' carrying X's
justification), with the signal going low again at virtual time t1 and the suspender's sleep s:
  * from that '_start_suspender' until virtual time t1+s the only messages processed are helper messages
    (rewindable, pre-plan, wait_for, and inner suspensions' helpers) -- no plan message, no replay;
    with two suspenders tripped no plan message is processed while *either* is still in effect;
  * every device that had been set is told to stop after the trip and before the helper's wait_for;
  * after t1+s: '_resume_from_suspender', the post-plan, 'rewindable' restored, then the replay;
  * the user's RE(...) call does not return in between.
A trip whose request never reached the plan (plan already finishing, or engine not running) is not a
suspension and nothing is asserted for it.
"""

import copy

from sim import gen
from sim.dsl import msg

from . import generic
from .common import V, View

ID = "C11"
TITLE = "Suspension holds the plan until release, then runs post-plan and rewinds"
QUICK = {"batches": 150, "wall": 50.0}
THOROUGH = {"batches": 5000, "wall": 900.0}
SHRINK_PLAN = False

valid_case = generic.valid_case

SIGS = ["sigS", "sigT"]


def cases(seed, tier):
    rng = gen.rng_for(ID, seed)
    specs = gen.gen_world(rng, flyers=0, p_async=0.3, pausable=0.3)
    for s in SIGS:
        specs[s] = {"kind": "signal", "initial": 0}
    pg = gen.PlanGen(rng, specs)
    pg.idempotent = rng.random() < 0.5
    body = pg.generic(cleanup=0.3)
    nsus = rng.choice([1, 2, 2])
    case = {
        "prop": ID,
        "seed": seed,
        "sim": {"handle_cost": rng.choice([0.0, 0.0, 1e-4])},
        "re": {"record_interruptions": rng.random() < 0.3},
        "devices": specs,
        "suspenders": {},
        "script": [],
    }
    for i in range(nsus):
        sus = {"cls": "SuspendBoolHigh", "signal": SIGS[i], "kwargs": {"sleep": rng.choice([0, 0.5, 2.0])}}
        if rng.random() < 0.4 and pg.motors:
            m = pg.motors[0]
            sus["pre_plan"] = [
                {"op": "msg", "cmd": "set", "obj": m, "args": [rng.choice([7.0, 8.0])], "kw": {"group": f"pre{i}"}, "site": f"pre{i}a"},
                {"op": "msg", "cmd": "wait", "kw": {"group": f"pre{i}"}, "site": f"pre{i}b"},
            ]
        if rng.random() < 0.4:
            sus["post_plan"] = [{"op": "msg", "cmd": "null", "site": f"post{i}"}, {"op": "msg", "cmd": "sleep", "args": [0.2], "site": f"post{i}s"}]
        case["suspenders"][f"s{i}"] = sus
        case["script"].append({"do": "install_suspender", "sus": f"s{i}"})
    case["script"].append({"do": "call", "plan": body, "main": True})
    S = pg.S
    case["script"].append({"do": "call", "plan": [msg(S, "null")], "tag": "followup-null"})
    dry, dv, n = generic.dry_run(case)
    ci = generic.main_index(case)
    K = 12 if tier == "quick" else 24
    for j in range(K):
        c = copy.deepcopy(case)
        c["variant"] = j
        inj = []
        for i in range(nsus):
            if i == 0 or rng.random() < 0.8:
                step = rng.randrange(0, n + 2)
                if i == 1 and inj and rng.random() < 0.6:
                    # bias: the second trip lands while the first suspension is in effect
                    step = inj[0]["at"]["step"] + rng.randrange(1, 25)
                inj.append(
                    {
                        "id": f"t{i}",
                        "at": {"step": step},
                        "do": "trip",
                        "args": {"signal": SIGS[i], "value": 1, "release_value": 0, "after": rng.choice([0.0, 0.3, 1.0, 5.0])},
                    }
                )
                sl = case["suspenders"][f"s{i}"]["kwargs"].get("sleep", 0)
                if rng.random() < (0.4 if sl else 0.1):
                    # the signal flaps: bad again during (or right after) the settle time of the first release
                    # (never at the very instant of the previous change: one device thread delivers its updates one
                    # after the other, each callback returning before the next update is looked at)
                    if not inj[-1]["args"]["after"]:
                        inj[-1]["args"]["after"] = 0.05  # (a flapping signal does not change twice in the same instant either)
                    inj[-1]["args"]["then"] = [[rng.choice([0.05, 0.1, 0.3 * sl, 0.9 * sl, 1.5 * sl]) if sl else rng.choice([0.05, 0.1]), 1], [rng.choice([0.05, 0.2, 1.0, 3.0]), 0]]
        # the user pauses and resumes around (or inside) the suspension: neither the resume nor the replay it starts may
        # let a plan message through before the suspender has released
        if rng.random() < 0.35:
            for k in range(rng.choice([1, 1, 2])):
                near = inj[0]["at"]["step"] + rng.randrange(-10, 40) if rng.random() < 0.7 else rng.randrange(0, n + 2)
                inj.append({"id": f"p{k}", "at": {"step": max(0, near)}, "do": "pause"})
            decs = []
            for k in range(6):
                d = {"do": "resume"}
                if rng.random() < 0.3:
                    d["inject"] = [{"id": f"q{k}", "at": {"step": rng.randrange(0, 40)}, "do": "pause"}]
                decs.append(d)
            c["script"][ci]["decisions"] = decs
            c["script"][ci]["final"] = "resume"
        inj.sort(key=lambda x: x["at"]["step"])
        c["script"][ci]["inject"] = inj
        # a Pausable device that refuses to be replayed (pause() raises NoReplayAllowed): the engine then must not
        # re-execute interrupted messages, but a suspension whose wait was interrupted still has to hold
        pausables = [d for d, s in c["devices"].items() if s["kind"] in ("pmotor", "pdet")]
        if pausables and rng.random() < 0.35:
            p = rng.choice(pausables)
            for occ in rng.choice([[0], [1], [0, 1], [0, 1, 2]]):
                c["devices"][p].setdefault("faults", {})[f"pause#{occ}"] = {"kind": "raise", "exc": "NoReplayAllowed"}
        # a motor whose stop() keeps failing (controller not answering): the engine logs it and carries on; the
        # other devices are still stopped and the suspension still holds the plan
        if pg.motors and rng.random() < 0.25:
            mfail = rng.choice(pg.motors)
            c["devices"][mfail].setdefault("faults", {})[f"stop#{rng.choice([0, 0, 1])}+"] = {"kind": "raise", "exc": "RuntimeError"}
        yield c
    # three requests on top of each other: one suspender trips, releases and trips again a moment later, the other
    # one trips at about the same time - all while the first '_start_suspender' is still being carried out (a device
    # whose stop() / pause() takes a while).  The plan is replayed once, after the last of them has released
    if nsus == 2:
        for j in range(2 if tier == "quick" else 5):
            c = copy.deepcopy(case)
            c["variant"] = f"three-overlapping-requests-{j}"
            c["sim"] = {"handle_cost": 1e-4}
            c["suspenders"]["s0"]["kwargs"]["sleep"] = 0.5
            c["suspenders"]["s1"]["kwargs"]["sleep"] = 2.0
            for dname, dspec in c["devices"].items():
                if dspec["kind"] in ("motor", "pmotor"):
                    dspec.setdefault("async", {})["stop"] = 0.05
            st = rng.randrange(5, max(6, n))
            c["script"][ci]["inject"] = [
                {"id": "t1", "at": {"step": st}, "do": "trip", "args": {"signal": SIGS[1], "value": 1, "release_value": 0, "after": 0.0, "then": [[0.05, 1], [1.0, 0]]}},
                {"id": "t0", "at": {"step": st + rng.randrange(12, 22)}, "do": "trip", "args": {"signal": SIGS[0], "value": 1, "release_value": 0, "after": 0.3}},
            ]
            yield c


def check(res):
    out = []
    v = View(res)
    res.notes = {}
    if res.aborted:
        return out
    case = res.case
    sleeps = {s["signal"]: s["kwargs"].get("sleep", 0) for s in case["suspenders"].values()}
    for inv in v.invocations:
        evs = inv.events
        # release times: when each signal went low after having been high
        # the transitions of each suspender's signal (it may flap: high, low, high again within the settle time ...)
        trans = {s: [] for s in sleeps}
        for e in evs:
            if e.kind == "dev" and e.d["method"] == "put" and e.d["dev"] in sleeps:
                tr = trans[e.d["dev"]]
                val = bool(e.d["value"])
                if val != (tr[-1][1] if tr else False):
                    tr.append((e, val))
        reqs = {}
        for e in evs:
            if e.kind == "sus_request":
                sg = next((s_ for s_ in sleeps if f"Signal {s_} " in str(e.d.get("justification"))), None)
                reqs.setdefault(sg, []).append(e)
        used_reqs, req_of = set(), {}
        # walk the message trace with a helper stack
        helpers = []  # {"sig":..., "start":Ev, "phase": pre|post, "wait_for": Ev|None}
        in_effect = []  # [(sig, start_ev, until_time)]
        for e in evs:
            if e.kind == "state" and e.d["new"] in ("aborting", "stopping", "halting", "panicked"):
                # the plan is being ended (here: a pause where there is no checkpoint to resume from): its clean-up
                # runs although the suspender has not released
                if helpers or in_effect:
                    res.notes["ended_while_suspended"] = res.notes.get("ended_while_suspended", 0) + 1
                helpers, in_effect = [], []
                continue
            if e.kind == "call_end" and e.d["api"] in ("call", "resume") and helpers and e.d.get("state") == "paused":
                res.notes["paused_while_suspended"] = res.notes.get("paused_while_suspended", 0) + 1
                continue
            if e.kind == "call_end" and e.d["api"] in ("call", "resume") and helpers:
                out.append(V("call-returned-while-suspended", f"{e.d['api']} returned ({e.d['outcome']}/{e.d['exc']}) while a suspension helper was still on the stack"))
                helpers = []
                continue
            if e.kind == "cmd" and e.d["cmd"] == "_start_suspender" and e.d["end"] != "ok" and helpers:
                h = helpers.pop()
                res.notes["start_suspender_" + e.d["end"]] = res.notes.get("start_suspender_" + e.d["end"], 0) + 1
                continue
            if e.kind != "msg":
                continue
            cmd = e.d["cmd"]
            if cmd == "_start_suspender":
                just = e.d["args"][2] if len(e.d["args"]) > 2 else ""
                sig = next((s for s in sleeps if isinstance(just, str) and f"Signal {s} " in just), None)
                tr = trans.get(sig, [])
                # the trip this suspension belongs to: the one whose request_suspend it answers (requests and
                # suspensions of one suspender pair up in order), not simply the latest one before it
                req = None
                if e.d["mid"] in req_of:
                    req = req_of[e.d["mid"]]
                else:
                    req = next((r for r in reqs.get(sig, []) if r.seq < e.seq and r.seq not in used_reqs), None)
                    if req is not None:
                        used_reqs.add(req.seq)
                        req_of[e.d["mid"]] = req
                bound = req.seq if req is not None else e.seq
                ks = [i for i, (x, val) in enumerate(tr) if val and x.seq <= bound]
                if sig is None or not ks or ks[-1] + 1 >= len(tr):
                    helpers.append({"sig": sig, "start": e, "phase": "pre", "until": None})
                    continue
                k = ks[-1]
                # this suspension's own release: the signal's return to nominal after the trip, plus the settle time
                own = tr[k + 1][0].t + sleeps[sig]
                # ... and the plan is held for longer when the signal goes bad again before that: the new trip is a
                # new suspension on top (it arrives while the engine is certainly running: inside this very suspension)
                until = own
                j = k + 1
                while until is not None and j + 1 < len(tr) and tr[j + 1][0].t < until - 1e-9:
                    retrip = tr[j + 1][0]
                    nxt = tr[j + 3][0] if j + 3 < len(tr) else None
                    st_then = next((x.d["new"] for x in reversed(evs) if x.kind == "state" and x.seq < retrip.seq), "running")
                    if st_then in ("pausing", "paused") and not any(r.seq > retrip.seq and (nxt is None or r.seq < nxt.seq) for r in reqs.get(sig, [])):
                        # the signal went bad again while the engine was pausing / paused (the user's pause inside the
                        # suspension): the suspender asks for nothing then, no further suspension comes into effect and
                        # this one ends with its own release (what a trip during a pause should do is not C11's)
                        res.notes["retrip_while_not_running"] = res.notes.get("retrip_while_not_running", 0) + 1
                        break
                    if j + 2 < len(tr):
                        until = max(until, tr[j + 2][0].t + sleeps[sig])
                        j += 2
                        res.notes["retrip_during_settle"] = res.notes.get("retrip_during_settle", 0) + 1
                    else:
                        until = None  # never released again within the case: nothing to compare with
                helpers.append({"sig": sig, "start": e, "phase": "pre", "until": own, "wait_for": None})
                if until is not None:
                    in_effect.append((sig, e, until))
                res.notes["suspensions"] = res.notes.get("suspensions", 0) + 1
                if len([h for h in helpers if h.get("until")]) > 1:
                    res.notes["overlapping_suspensions"] = res.notes.get("overlapping_suspensions", 0) + 1
                continue
            if helpers:
                h = helpers[-1]
                if cmd == "wait_for" and h.get("wait_for") is None:
                    h["wait_for"] = e
                    # (ii) moved devices stopped between the trip and the wait
                    sets = {}
                    for x in evs:
                        if x.kind == "dev" and x.d["method"] == "set" and x.d.get("fault") != "raise" and x.seq < h["start"].seq:
                            sets[x.d["dev"]] = x
                    for dev in sets:
                        if not any(
                            x.kind == "dev" and x.d["dev"] == dev and x.d["method"] == "stop" and h["start"].seq < x.seq < e.seq for x in evs
                        ):
                            out.append(V("moved-device-not-stopped", f"{dev} was set before the suspension but not told to stop before the helper's wait_for", dev=dev))
                elif cmd == "_resume_from_suspender":
                    h["phase"] = "post"
                    if h.get("until") is not None and e.t < h["until"] - 1e-9:
                        out.append(
                            V(
                                "resumed-before-release",
                                f"suspension on {h['sig']}: '_resume_from_suspender' at t={e.t} but the release is due at t={h['until']}",
                                sig=h["sig"],
                            )
                        )
                elif cmd == "rewindable" and h["phase"] == "post":
                    helpers.pop()
                continue
            # ---- a plan message (new or replayed)
            for sig, start, until in in_effect:
                if e.seq > start.seq and e.t < until - 1e-9:
                    out.append(
                        V(
                            "plan-message-while-suspended",
                            f"{cmd} (message #{e.d['mid']}) processed at t={e.t} while the suspension on {sig} is in effect until t={until}",
                            sig=sig,
                            cmd=cmd,
                        )
                    )
                    break
    return out


def nontrivial(res):
    return bool(getattr(res, "notes", {}).get("suspensions"))
