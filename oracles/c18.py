"""C18 - Subscriptions live exactly as long as they were asked to.

History machine on one engine: permanent RE.subscribe(f, name) with f drawn from a pool of three callables
(so the same callable is often subscribed several times, to the same or different kinds),
RE.unsubscribe(token), calls with per-call `subs` drawn from the same pool, in-plan 'subscribe' /
'unsubscribe' messages, with runs in between -- some paused and resumed, aborted, or failing.
Model: the set of live tokens.  A callable f must receive document d (at least once) iff some live token of
f covers d's kind; in particular unsubscribing one token must not silence another token of the same
callable, and per-call / in-plan tokens are dead once their call is over.
"""

import copy

from sim import gen
from sim.dsl import msg

from . import generic
from .common import V, View

ID = "C18"
TITLE = "Subscriptions live exactly as long as they were asked to"
QUICK = {"batches": 2500, "wall": 50.0}
THOROUGH = {"batches": 80000, "wall": 900.0}

SHRINK_PLAN = False
POOL = ["cb0", "cb1", "cb2"]
KINDS = ["all", "all", "event", "start", "stop", "descriptor"]


def cases(seed, tier):
    rng = gen.rng_for(ID, seed)
    specs = gen.gen_world(rng, dets=1, motors=1, flyers=0, p_async=0.2)
    pg = gen.PlanGen(rng, specs)
    S = pg.S
    case = {"prop": ID, "seed": seed, "sim": {}, "re": {}, "devices": specs, "callbacks": {c: {} for c in POOL}, "script": []}
    ntok = 0
    live = []
    ncalls = 0
    for _ in range(rng.choice([5, 7, 9, 11])):
        r = rng.random()
        if r < 0.35:
            ntok += 1
            case["script"].append({"do": "subscribe", "cb": rng.choice(POOL), "name": rng.choice(KINDS), "token": f"p{ntok}"})
            live.append(f"p{ntok}")
        elif r < 0.5 and live:
            t = live.pop(rng.randrange(len(live)))
            case["script"].append({"do": "unsubscribe", "token": t})
        elif r < 0.56:
            # everything is unsubscribed at once (what RE.reset() does); later subscriptions live and die as usual
            case["script"].append({"do": "unsubscribe_all"})
            live = []
        else:
            ncalls += 1
            body = []
            var = None
            if rng.random() < 0.5:
                var = f"t{ncalls}"
                body.append(msg(S, "subscribe", None, {"cb": rng.choice(POOL)}, rng.choice(["all", "event", "stop"]), save=var))
            run = [msg(S, "open_run"), msg(S, "checkpoint")] + pg.point(devices=pg.dets[:1], checkpoint=0.0)
            if var and rng.random() < 0.4:
                run.append(msg(S, "unsubscribe", None, {"var": var}))
            run += pg.point(devices=pg.dets[:1], checkpoint=1.0) + [msg(S, "close_run")]
            body += run
            step = {"do": "call", "plan": body}
            if rng.random() < 0.6:
                step["subs"] = {rng.choice(["all", "event", "stop", "start"]): [rng.choice(POOL)]}
                if rng.random() < 0.3:
                    step["subs"][rng.choice(["all", "descriptor"])] = [rng.choice(POOL)]
            how = rng.random()
            if how < 0.3:
                step["inject"] = [{"id": "i0", "at": {"step": rng.randrange(3, 40)}, "do": "pause"}]
                step["decisions"] = [{"do": rng.choice(["resume", "resume", "abort", "stop"])}]
            elif how < 0.4:
                step["inject"] = [{"id": "i0", "at": {"step": rng.randrange(3, 40)}, "do": rng.choice(["abort", "halt", "stop"])}]
            case["script"].append(step)
    if ncalls == 0:
        case["script"].append({"do": "call", "plan": [msg(S, "open_run"), msg(S, "close_run")]})
    yield case


def covers(name, kind):
    return name == "all" or name == kind


def check(res):
    out = []
    v = View(res)
    res.notes = {}
    if res.aborted:
        return out
    case = res.case
    # --- replay the script against the model, segment by segment
    permanent = {}  # token -> (cb, name)
    evs = v.evs
    # index invocations in script order
    inv_iter = iter(v.invocations)
    for step in case["script"]:
        do = step["do"]
        if do == "subscribe":
            permanent[step["token"]] = (step["cb"], step.get("name", "all"))
        elif do == "unsubscribe":
            permanent.pop(step["token"], None)
        elif do == "unsubscribe_all":
            permanent.clear()
        elif do == "call":
            inv = next(inv_iter, None)
            if inv is None:
                break
            temp = {}  # per-call tokens: name -> (cb, kind)
            for kind, cbs in (step.get("subs") or {}).items():
                for i, cb in enumerate(cbs):
                    temp[f"subs:{kind}:{i}"] = (cb, kind)
            msgs = {}
            received = {}  # doc seq -> set of cbs that got it
            docs = []
            for e in inv.events:
                if e.kind == "msg":
                    msgs[e.d["mid"]] = e
                elif e.kind == "cmd" and e.d["cmd"] == "subscribe" and e.d["end"] == "ok":
                    m = msgs.get(e.d["mid"])
                    cb = m.d["args"][0] if m else None
                    cbname = _cbname(res, m)
                    temp[f"tok:{e.d['value']}"] = (cbname, m.d["args"][1] if len(m.d["args"]) > 1 else "all")
                elif e.kind == "cmd" and e.d["cmd"] == "unsubscribe" and e.d["end"] == "ok":
                    m = msgs.get(e.d["mid"])
                    tok = m.d["args"][0] if m and m.d["args"] else (m.d["kw"].get("token") if m else None)
                    temp.pop(f"tok:{tok}", None)
                elif e.kind == "doc":
                    live = list(permanent.values()) + list(temp.values())
                    want = {cb for cb, name in live if covers(name, e.d["name"])}
                    docs.append((e, want))
                elif e.kind == "cb" and docs:
                    # callbacks are invoked synchronously right after the recorder saw the document
                    received.setdefault(docs[-1][0].seq, set()).add(e.d["cid"])
            for e, want in docs:
                got = received.get(e.seq, set()) & set(POOL)
                res.notes["documents_checked"] = res.notes.get("documents_checked", 0) + 1
                if got != want:
                    missing, extra = sorted(want - got), sorted(got - want)
                    out.append(
                        V(
                            "delivery-differs-from-live-tokens",
                            f"{e.d['name']} document: missing for {missing}, unexpectedly delivered to {extra} (live: permanent={permanent}, per-call={temp})",
                            missing=missing,
                            extra=extra,
                        )
                    )
                    break
    return out


def _cbname(res, m):
    # the DSL argument {"cb": "cbX"} was resolved to a RecordingCallback; its repr is '<cb cbX>'
    a = m.d["args"][0] if m and m.d["args"] else None
    if isinstance(a, dict) and "cb" in a:
        return a["cb"]
    return a


def nontrivial(res):
    return any(s["do"] == "unsubscribe" for s in res.case["script"]) or any("subs" in s for s in res.case["script"])
