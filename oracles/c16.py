"""C16 - Descriptors carry device configuration current when they were made.

Workload: configurable fake devices; 'configure' messages interleaved with bundles on two streams that
share a device; pauses / suspensions between a configure and the next bundle and inside the (async)
read_configuration() are swept ('configure' is replayable).
Oracle: each descriptor's configuration[obj.name]['data'] equals what obj.read_configuration() returned
most recently before the descriptor was emitted (device ledger); after a completed configure(obj) every
later event of every stream that contains obj references a descriptor emitted after that configure, which
carries the new configuration and the same data keys as the stream's earlier descriptor.
"""

import copy

from sim import gen
from sim.dsl import msg

from . import generic
from .common import V, View

ID = "C16"
TITLE = "Descriptors carry device configuration current when they were made"
QUICK = {"batches": 150, "wall": 50.0}
THOROUGH = {"batches": 5000, "wall": 900.0}

valid_case = generic.valid_case
SHRINK_PLAN = False


def config_plan(pg):
    rng, S = pg.rng, pg.S
    shared = pg.dets[0]
    other = pg.dets[1] if len(pg.dets) > 1 else pg.motors[0]
    streams = {"primary": [shared, other], "aux": [shared]}
    body = [msg(S, "open_run")]
    val = 1.0
    monitored = "sigC" in pg.specs and rng.random() < 0.5
    if monitored:
        # a monitor stream also 'contains' its object: after configure its events need the new descriptor too
        streams["sigC_monitor"] = ["sigC"]
        body.append(msg(S, "monitor", "sigC", name="sigC_monitor"))
    for _ in range(rng.choice([4, 5, 6, 7])):
        r = rng.random()
        if r < 0.35:
            val += 1.0
            dev = rng.choice([shared, shared, other] + (["sigC", "sigC"] if monitored else []))
            key = "averaging" if dev == "sigC" else "exposure" if pg.specs[dev]["kind"] in ("det", "pdet") else "velocity"
            if rng.random() < 0.5:
                body.append(msg(S, "checkpoint"))
            body.append(msg(S, "configure", dev, **{key: val}))
        else:
            stream = rng.choice(["primary", "aux"])
            if rng.random() < 0.7:
                body.append(msg(S, "checkpoint"))
            body.append(msg(S, "create", None, name=stream))
            for o in streams[stream]:
                body.append(msg(S, "read", o))
            # a dropped bundle reads (and caches) the configuration without making a descriptor
            body.append(msg(S, "drop") if rng.random() < 0.25 else msg(S, "save"))
    body.append(msg(S, "close_run"))
    return body, streams


def cases(seed, tier):
    rng = gen.rng_for(ID, seed)
    specs = gen.gen_world(rng, dets=2, flyers=0, p_async=0.5)
    specs["sigS"] = {"kind": "signal", "initial": 0}
    specs["sigC"] = {"kind": "csignal", "initial": 0}
    pg = gen.PlanGen(rng, specs)
    body, streams = config_plan(pg)
    case = {
        "prop": ID,
        "seed": seed,
        "sim": {"handle_cost": rng.choice([0.0, 0.0, 1e-4])},
        "re": {},
        "devices": specs,
        "suspenders": {"s0": {"cls": "SuspendBoolHigh", "signal": "sigS", "kwargs": {"sleep": rng.choice([0, 0.5])}}},
        "script": [{"do": "install_suspender", "sus": "s0"}, {"do": "call", "plan": body, "main": True, "streams": streams}],
    }
    retarget = generic.second_suspender(case, ID, seed)
    dry, dv, n = generic.dry_run(case)
    yield case
    ci = generic.main_index(case)
    K = 12 if tier == "quick" else 24
    for j in range(K):
        c = copy.deepcopy(case)
        c["variant"] = j
        inj = gen.gen_injections(rng, n, kinds=["pause", "pause", "trip"] + (["put", "put", "put"] if "sigC_monitor" in streams else []), k=rng.choice([1, 1, 2, 3]), slack=2)
        for i in inj:
            if i["do"] == "trip":
                i["args"] = retarget(generic.trip_args(rng))
            elif i["do"] == "put":
                i["args"] = {"signal": "sigC", "value": 100 + j * 10 + len(inj)}
        c["script"][ci]["inject"] = inj
        c["script"][ci]["decisions"] = [{"do": "resume"} for _ in range(5)]
        c["script"][ci]["final"] = "resume"
        if rng.random() < 0.35:
            # the suspender's own plans re-configure the shared detector (lower the gain while the beam is away ...):
            # a configure executed between an interrupted first reading of the device and its re-execution
            dev0 = streams["primary"][0]
            key0 = "exposure" if specs[dev0]["kind"] in ("det", "pdet") else "velocity"
            which = rng.choice(["pre_plan", "post_plan"])
            c["suspenders"]["s0"][which] = [{"op": "msg", "cmd": "configure", "obj": dev0, "kw": {key0: 50.0 + j}, "site": f"sus-{which}"}]
        yield c
    # a subscriber (registered after the recorder) fails on one of the descriptors - possibly one that 'configure'
    # re-issues; the plan copes with the error at that message and goes on taking data
    for j in range(3):
        c = copy.deepcopy(case)
        c["variant"] = f"subscriber-raises-on-descriptor-{j}"
        c["callbacks"] = {"cbX": {"raise_at": {"descriptor": [rng.randrange(0, 6)]}}}
        c["script"].insert(0, {"do": "subscribe", "cb": "cbX", "name": "all", "token": "x0"})
        S2 = pg.S

        def guard(nodes):
            out = []
            i = 0
            while i < len(nodes):
                n_ = nodes[i]
                if n_.get("cmd") == "configure":
                    out.append({"op": "try", "site": S2(), "body": [n_], "handlers": [{"exc": "Exception", "body": [msg(S2, "null")], "reraise": False}]})
                    i += 1
                elif n_.get("cmd") == "create":
                    k = i
                    while nodes[k].get("cmd") not in ("save", "drop"):
                        k += 1
                    out.append({"op": "try", "site": S2(), "body": nodes[i : k + 1], "handlers": [{"exc": "Exception", "body": [msg(S2, "null")], "reraise": False}]})
                    i = k + 1
                else:
                    out.append(n_)
                    i += 1
            return out

        main = next(s_ for s_ in c["script"] if s_.get("main"))
        main["plan"] = guard(main["plan"])
        yield c


def check(res):
    out = []
    v = View(res)
    res.notes = {}
    if res.aborted:
        return out
    inv = v.invocations[0]
    evs = inv.events
    streams = next(s for s in res.case["script"] if s.get("main"))["streams"]
    last_cfg = {}  # dev -> data returned by the latest read_configuration()
    true_cfg = {}  # dev -> the device's actual configuration (changes only through configure())
    pending_cfg = {}
    configured_at = {}  # dev -> seq of the latest completed configure
    descs = {}  # uid -> (seq, doc)
    first_keys = {}
    msgs = {}
    for e in evs:
        if e.kind == "msg":
            msgs[e.d["mid"]] = e
        elif e.kind == "config_read":
            last_cfg[e.d["dev"]] = e.d["data"]
            true_cfg.setdefault(e.d["dev"], e.d["data"])
        elif e.kind == "config_set":
            # the device has applied the change; it counts once the configure message has completed.  A configure
            # interrupted half-way (device changed, engine's bookkeeping not done) leaves the truth unknown until
            # the engine reads the configuration again - what the engine then records is what the object reported
            pending_cfg[e.d["dev"]] = e.d["data"]
            true_cfg.pop(e.d["dev"], None)
        elif e.kind == "cmd" and e.d["cmd"] == "configure" and e.d["end"] != "ok":
            m = msgs.get(e.d["mid"])
            if m is not None:
                pending_cfg.pop(m.d["obj"], None)
        elif e.kind == "cmd" and e.d["cmd"] == "configure" and e.d["end"] == "ok":
            m = msgs.get(e.d["mid"])
            if m is not None:
                # the re-made descriptors are emitted while the configure message is being executed
                configured_at[m.d["obj"]] = m.seq
                if m.d["obj"] in pending_cfg:
                    true_cfg[m.d["obj"]] = pending_cfg.pop(m.d["obj"])
        elif e.kind == "doc" and e.d["name"] == "descriptor":
            doc = e.d["doc"]
            descs[doc["uid"]] = (e.seq, doc)
            if doc["name"] == "interruptions":
                continue
            res.notes["descriptors_checked"] = res.notes.get("descriptors_checked", 0) + 1
            for obj, cfg in doc.get("configuration", {}).items():
                want = last_cfg.get(obj)
                if want is None:
                    out.append(V("configuration-without-read", f"descriptor {doc['name']!r} carries configuration for {obj} which was never read"))
                elif obj in true_cfg and cfg.get("data") != true_cfg[obj]:
                    out.append(
                        V(
                            "descriptor-configuration-out-of-date",
                            f"descriptor {doc['name']!r}: configuration of {obj} is {cfg.get('data')} but the device is configured as {true_cfg[obj]} (it was configured after the engine last read it)",
                            obj=obj,
                        )
                    )
                elif cfg.get("data") != want:
                    out.append(
                        V(
                            "stale-configuration-in-descriptor",
                            f"descriptor {doc['name']!r}: configuration of {obj} is {cfg.get('data')} but read_configuration() last returned {want}",
                            obj=obj,
                        )
                    )
            fk = first_keys.setdefault(doc["name"], set(doc["data_keys"]))
            if fk != set(doc["data_keys"]):
                out.append(V("data-keys-changed", f"stream {doc['name']!r}: data keys changed from {sorted(fk)} to {sorted(doc['data_keys'])}"))
        elif e.kind == "doc" and e.d["name"] == "event":
            doc = e.d["doc"]
            d = descs.get(doc["descriptor"])
            if d is None:
                continue
            dseq, ddoc = d
            # whatever else happened: an event refers to the newest descriptor its stream had when it was emitted
            newer = [s_ for s_, dd in descs.values() if dd["name"] == ddoc["name"] and dd.get("run_start") == ddoc.get("run_start") and dseq < s_ < e.seq]
            if newer:
                out.append(V("event-references-superseded-descriptor", f"event seq {doc['seq_num']} of {ddoc['name']!r} refers to a descriptor that had already been replaced by a newer one of that stream", stream=ddoc["name"]))
            for obj in streams.get(ddoc["name"], []):
                if obj in configured_at and dseq < configured_at[obj]:
                    out.append(
                        V(
                            "event-references-pre-configure-descriptor",
                            f"event seq {doc['seq_num']} of {ddoc['name']!r} references a descriptor made before {obj} was configured",
                            obj=obj,
                            stream=ddoc["name"],
                        )
                    )
    return out
