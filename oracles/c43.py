"""C43 - PersistentDict keeps what was last written  (engine fs_sim).

The real `PersistentDict`, `zict.File` / `zict.Func`, `msgpack` and `msgpack_numpy` run over the in-memory file
system of sim/fs_fake.py (seams: `zict.file.open`, `zict.file.os`).  One instance at a time.

History machine: d[k]=v, del, pop, popitem, update, setdefault, clear, in-place mutation of a stored value,
flush(), reload(), and *reopen* in three forms - hard crash (the instance is dropped with its finalizer
detached: only the simulated disk survives), clean exit (the finalizer runs, as at interpreter exit) and
garbage collection (the last reference is dropped and the finalizer fires through weakref).
Faults (separate configuration): at a chosen syscall a crash before/after it, a torn write followed by a crash,
or ENOSPC/EIO.

Model (over normalised values): `live` = what the mapping shows, `durable` = value at the last
set/flush of each key, `dirty` = keys whose stored object was mutated in place since.
Oracle, fault-free: after every operation the mapping equals `live` and the operation's result/exception is the
dict's; after a hard crash the reopened mapping equals `durable`; after a clean exit / gc it has exactly the
keys of `live`, every key not in `dirty` holds its last set/flushed value, and a dirty key holds either that
or its mutated value (the class promises to sync mutated values at collection; the property only requires the
last value written, so both are accepted).
With faults only the weaker form is asserted: keys the interrupted operation does not touch are intact on
disk; a touched key is old, new or absent (atomicity is not promised); a reopen that fails on a torn file is
counted (probe), not reported; a reopen that fails otherwise is a violation.
"""

import copy
import gc
from unittest import mock

import numpy as np

from sim import gen
from sim.fs_fake import FakeFS, FakeOS, SimCrash
from sim.kernel import Sim
from sim.runner import Result

from .common import V

ID = "C43"
TITLE = "PersistentDict keeps what was last written"
ENGINE = "fs_sim"
QUICK = {"batches": 3000, "wall": 50.0}
THOROUGH = {"batches": 150000, "wall": 900.0}
COMPONENTS_REAL = [
    "bluesky.utils.PersistentDict (all methods, finalizer)",
    "zict.File / zict.Func, msgpack, msgpack_numpy",
    "weakref.finalize / gc for the 'gc' form of reopen",
]
COMPONENTS_STUB = ["the file system (in-memory, buffered writes committed at flush/close; sim/fs_fake.py)"]

RULE = (
    "one case = one generated operation history (2-25 operations incl. reopen points) plus, in 45% of the cases, 1-2 "
    "faults at syscalls the fault-free run performs; non-trivial = at least one reopen after at least one operation; "
    "distinct = distinct (operation kind, key, reopen form, fault kind@syscall) sequences"
)
ASSUMPTIONS = [
    "one instance at a time (as the property states); no second process on the directory",
    "the disk is modelled at write()/close() granularity: a write reaches the disk when the file is flushed or closed; "
    "no reordering of committed writes, no fsync semantics (a crash is a process kill, not a power loss)",
    "values are msgpack-stable (str-keyed dicts, lists, ints, floats, str, bytes, numpy arrays / scalars compared by value)",
    "sampling, not proof",
]
KEYS = ["a", "b", "sample", "a/b", "k#1", "sp ace", "ünï", "%41", "", "..", "A"]
ABSENT = "__absent__"


# ---- values: JSON specs <-> python/numpy objects ------------------------------------------------------------


def decode(s):
    if isinstance(s, dict):
        if "__nd__" in s:
            dt, shape, data = s["__nd__"]
            return np.array(data, dtype=np.dtype(dt)).reshape(shape)
        if "__ns__" in s:
            dt, item = s["__ns__"]
            return np.dtype(dt).type(item)
        if "__b__" in s:
            return bytes.fromhex(s["__b__"])
        return {k: decode(v) for k, v in s.items()}
    if isinstance(s, list):
        return [decode(v) for v in s]
    return s


def norm(v):
    if isinstance(v, np.ndarray):
        return {"__nd__": [v.dtype.str, list(v.shape), v.reshape(-1).tolist()]}
    if isinstance(v, np.generic):
        # np.float64 is a float subclass and is packed as a plain float; other numpy scalars come back as
        # numpy scalars: the property is about values, so scalars are compared by value
        return v.item()
    if isinstance(v, (bytes, bytearray)):
        return {"__b__": bytes(v).hex()}
    if isinstance(v, dict):
        return {str(k): norm(x) for k, x in v.items()}
    if isinstance(v, (list, tuple)):
        return [norm(x) for x in v]
    return v


def mutable(spec):
    if isinstance(spec, list):
        return True
    if isinstance(spec, dict):
        if "__nd__" in spec:
            return len(spec["__nd__"][2]) > 0
        return "__ns__" not in spec and "__b__" not in spec
    return False


def mutate_value(v, i):
    """Mutate a stored object in place (what `d['sample']['shape'] = 'bar'` does)."""
    if isinstance(v, dict):
        v[f"_m{i}"] = i
    elif isinstance(v, list):
        v.append(i)
    elif isinstance(v, np.ndarray) and v.size:
        if not v.flags.writeable:
            return False
        v.reshape(-1)[0] = (v.reshape(-1)[0] + 1) if v.dtype != np.bool_ else (not v.reshape(-1)[0])
    else:
        return False
    return True


def gen_value(rng, depth=0):
    r = rng.random()
    if r < 0.15:
        return rng.randrange(-5, 1000)
    if r < 0.25:
        return rng.choice([0.5, -1.25, 1e300, 0.0])
    if r < 0.35:
        return rng.choice(["", "x", "with space", "éè", "#%/"])
    if r < 0.40:
        return rng.choice([None, True, False])
    if r < 0.47:
        return {"__b__": rng.choice([b"", b"\x00\xff", b"abc"]).hex()}
    if r < 0.60:
        dt = rng.choice(["<i8", "<f8", "|u1", "|b1", "<f4"])
        shape = rng.choice([[0], [3], [2, 2], [1], [2000]])
        n = 1
        for s in shape:
            n *= s
        if dt == "|b1":
            data = [bool((k + rng.randrange(2)) % 2) for k in range(n)]
        elif dt in ("<f8", "<f4"):
            data = [float(k % 7) + 0.5 for k in range(n)]
        else:
            data = [(k * 3 + rng.randrange(5)) % 200 for k in range(n)]
        return {"__nd__": [dt, shape, data]}
    if r < 0.67:
        dt = rng.choice(["<f8", "<i4", "|b1", "<i8"])
        return {"__ns__": [dt, {"<f8": 1.5, "<i4": 7, "|b1": True, "<i8": -3}[dt]]}
    if depth >= 2:
        return rng.randrange(10)
    if r < 0.85:
        return {rng.choice(["color", "shape", "n", "nested", ""]): gen_value(rng, depth + 1) for _ in range(rng.randrange(0, 4))}
    return [gen_value(rng, depth + 1) for _ in range(rng.randrange(0, 4))]


# ---- cases ---------------------------------------------------------------------------------------------------


def gen_ops(rng, n):
    ops = []
    keys = rng.sample(KEYS, rng.choice([2, 3, 5]))
    for _ in range(n):
        r = rng.random()
        k = rng.choice(keys)
        if r < 0.30:
            ops.append({"op": "set", "k": k, "v": gen_value(rng)})
        elif r < 0.36:
            ops.append({"op": "del", "k": k})
        elif r < 0.42:
            ops.append({"op": "pop", "k": k, "default": rng.random() < 0.5})
        elif r < 0.45:
            ops.append({"op": "popitem"})
        elif r < 0.50:
            ops.append({"op": "update", "items": [[rng.choice(keys), gen_value(rng)] for _ in range(rng.choice([1, 2, 3]))]})
        elif r < 0.54:
            ops.append({"op": "setdefault", "k": k, "v": gen_value(rng)})
        elif r < 0.56:
            ops.append({"op": "clear"})
        elif r < 0.70:
            ops.append({"op": "mutate", "k": k})
        elif r < 0.78:
            ops.append({"op": "flush"})
        elif r < 0.86:
            ops.append({"op": "reload"})
        else:
            ops.append({"op": "reopen", "how": rng.choice(["crash", "clean", "clean", "gc"])})
    ops.append({"op": "reopen", "how": rng.choice(["crash", "clean", "gc"])})
    return ops


def cases(seed, tier):
    rng = gen.rng_for(ID, seed)
    ops = gen_ops(rng, rng.choice([2, 4, 8, 14, 24]))
    case = {"prop": ID, "seed": seed, "dir": "/data/pd", "ops": ops, "faults": {}}
    if rng.random() < 0.45:
        # fault configuration: place 1-2 faults at syscalls the fault-free run really performs
        dry = run_case(case)
        nsys = max((e[4]["i"] for e in dry.history if e[1] == "sys"), default=-1) + 1
        if nsys:
            for _ in range(rng.choice([1, 1, 2])):
                i = rng.randrange(nsys)
                kind = rng.choice(["crash_before", "crash_after", "torn", "enospc", "eio"])
                f = {"kind": kind}
                if kind == "torn":
                    f["frac"] = rng.choice([0.0, 0.3, 0.9])
                case["faults"][str(i)] = f
            # the weakref path swallows exceptions raised in the finalizer: use the direct call when faulting
            for op in ops:
                if op.get("how") == "gc":
                    op["how"] = "clean"
    yield case


def shrink_candidates(case):
    ops = case["ops"]
    for i in range(len(ops) - 1, -1, -1):
        c = copy.deepcopy(case)
        del c["ops"][i]
        if case["faults"]:
            continue  # syscall indices would shift: faulted cases are only shrunk by dropping faults
        yield c
    for k in list(case["faults"]):
        c = copy.deepcopy(case)
        del c["faults"][k]
        yield c
    for i, op in enumerate(ops):
        if op["op"] == "set" and op["v"] != 0:
            c = copy.deepcopy(case)
            c["ops"][i]["v"] = 0
            yield c
        if op["op"] == "update" and len(op["items"]) > 1:
            c = copy.deepcopy(case)
            c["ops"][i]["items"].pop()
            yield c


# ---- running ----------------------------------------------------------------------------------------------------


def _apply(d, op, i):
    o = op["op"]
    if o == "set":
        d[op["k"]] = decode(op["v"])
    elif o == "del":
        del d[op["k"]]
    elif o == "pop":
        return norm(d.pop(op["k"], None) if op.get("default") else d.pop(op["k"]))
    elif o == "popitem":
        k, v = d.popitem()
        return [k, norm(v)]
    elif o == "update":
        d.update([(k, decode(v)) for k, v in op["items"]])
    elif o == "setdefault":
        return norm(d.setdefault(op["k"], decode(op["v"])))
    elif o == "clear":
        d.clear()
    elif o == "mutate":
        return bool(mutate_value(d[op["k"]], i))
    elif o == "flush":
        d.flush()
    elif o == "reload":
        d.reload()
    else:
        raise ValueError(o)
    return None


def run_case(case):
    import zict.file as zf

    from bluesky.utils import PersistentDict

    res = Result()
    res.case = case
    sim = Sim(case.get("seed", 0), max_steps=10**6)
    res.sim = sim
    fs = FakeFS(sim, case.get("faults"))
    directory = case["dir"]

    def reopen(tag):
        try:
            d = PersistentDict(directory)
        except SimCrash:
            raise
        except Exception as e:
            sim.record("reopen", tag=tag, ok=False, error=type(e).__name__, text=str(e)[:120])
            return None
        sim.record("reopen", tag=tag, ok=True, contents=norm(dict(d)))
        return d

    def observe():
        """What a reopen would see now, without disturbing the instance or the syscall numbering."""
        saved = (fs.sim, fs.faults, fs.nsys)
        fs.sim, fs.faults = None, {}
        try:
            try:
                o = PersistentDict(directory)
                o._finalizer.detach()
                out = {"ok": True, "contents": norm(dict(o))}
            except Exception as e:
                out = {"ok": False, "error": type(e).__name__}
        finally:
            fs.sim, fs.faults, fs.nsys = saved
        return out

    with mock.patch.object(zf, "open", fs.open, create=True), mock.patch.object(zf, "os", FakeOS(fs)):
        d = reopen("first")
        for i, op in enumerate(case["ops"]):
            if d is None:
                break
            fired0 = dict(fs.fired)
            if op["op"] == "reopen":
                how = op["how"]
                sim.record("exit", i=i, how=how, live=norm(dict(d)))
                try:
                    if how == "crash":
                        d._finalizer.detach()
                    elif how == "clean":
                        d._finalizer()
                    else:
                        del d
                        gc.collect()
                    sim.record("exit_done", i=i, outcome="ok", fired=_delta(fired0, fs.fired))
                except SimCrash as e:
                    sim.record("exit_done", i=i, outcome="crash", text=str(e), fired=_delta(fired0, fs.fired))
                except OSError as e:
                    sim.record("exit_done", i=i, outcome="OSError", text=str(e), fired=_delta(fired0, fs.fired))
                d = None
                d = reopen(f"after-{how}")
                continue
            try:
                ret = _apply(d, op, i)
                sim.record("op", i=i, op=op["op"], outcome="ok", ret=ret, contents=norm(dict(d)), fired=_delta(fired0, fs.fired), disk=observe() if case.get("faults") and op["op"] == "clear" else None)
            except SimCrash as e:
                sim.record("op", i=i, op=op["op"], outcome="crash", text=str(e), fired=_delta(fired0, fs.fired))
                d._finalizer.detach()
                d = reopen("after-fault-crash")
            except OSError as e:
                sim.record("op", i=i, op=op["op"], outcome="OSError", text=str(e), contents=norm(dict(d)), fired=_delta(fired0, fs.fired), disk=observe())
            except KeyError:
                sim.record("op", i=i, op=op["op"], outcome="KeyError", contents=norm(dict(d)), fired=_delta(fired0, fs.fired), disk=observe())
        if d is not None:
            d._finalizer.detach()
    res.history = sim.history
    return res


def _delta(a, b):
    return {k: v - a.get(k, 0) for k, v in b.items() if v - a.get(k, 0)}


# ---- the oracle ---------------------------------------------------------------------------------------------------


def _model_op(op, i, live, durable, dirty):
    """Apply `op` to the model. Returns (expected outcome, expected return, touched keys)."""
    o = op["op"]
    if o == "set":
        k = op["k"]
        live[k] = norm(decode(op["v"]))
        durable[k] = norm(decode(op["v"]))
        dirty.discard(k)
        return "ok", None, {k}
    if o == "del":
        k = op["k"]
        if k not in live:
            return "KeyError", None, set()
        live.pop(k)
        durable.pop(k, None)
        dirty.discard(k)
        return "ok", None, {k}
    if o == "pop":
        k = op["k"]
        if k not in live:
            return ("ok", None, set()) if op.get("default") else ("KeyError", None, set())
        v = live.pop(k)
        durable.pop(k, None)
        dirty.discard(k)
        return "ok", v, {k}
    if o == "popitem":
        if not live:
            return "KeyError", None, set()
        return "ok", "popitem", set(live)  # which key goes is the dict's business; resolved from the result
    if o == "update":
        t = set()
        for k, v in op["items"]:
            live[k] = norm(decode(v))
            durable[k] = norm(decode(v))
            dirty.discard(k)
            t.add(k)
        return "ok", None, t
    if o == "setdefault":
        k = op["k"]
        if k in live:
            return "ok", live[k], set()
        live[k] = norm(decode(op["v"]))
        durable[k] = norm(decode(op["v"]))
        return "ok", live[k], {k}
    if o == "clear":
        t = set(live)
        live.clear()
        durable.clear()
        dirty.clear()
        return "ok", None, t
    if o == "mutate":
        k = op["k"]
        if k not in live:
            return "KeyError", None, set()
        if not mutable(live[k]):
            return "ok", False, set()
        v = decode(live[k])
        mutate_value(v, i)
        live[k] = norm(v)
        dirty.add(k)
        return "ok", True, set()
    if o == "flush":
        t = set(live)
        for k in live:
            durable[k] = copy.deepcopy(live[k])
        dirty.clear()
        return "ok", None, t
    if o == "reload":
        live.clear()
        live.update(copy.deepcopy(durable))
        dirty.clear()
        return "ok", None, set()
    raise ValueError(o)


def _same(a, b):
    return norm_json(a) == norm_json(b)


def norm_json(x):
    # specs generated with ints where numpy gives floats (e.g. f8 arrays) compare equal through python ==
    return x


def check(res):
    out = []
    if res.aborted:
        return [V("aborted:" + res.aborted[0], str(res.aborted))]
    case = res.case
    ops = case["ops"]
    live, durable, dirty = {}, {}, set()
    ev = [e for e in res.history if e[1] in ("op", "exit", "exit_done", "reopen")]
    pos = 0
    poisoned = False  # a failed/interrupted write left a partial file behind (zict never removes it)
    alts = {}  # key -> intermediate values the operation in flight assigns to it (update with a repeated key)
    pending = None  # (kind, touched, before-durable, after-durable, torn) awaiting the reopen event
    errkeys = set()  # keys whose file an injected write error left behind what the mapping shows

    def fail(cls, text, **kw):
        out.append(V(cls, text, **kw))

    while pos < len(ev):
        e = ev[pos]
        pos += 1
        kind, data = e[1], e[4]
        if kind == "reopen":
            tag = data["tag"]
            if tag == "first":
                if not data["ok"] or data["contents"] != {}:
                    fail("fresh-directory-not-empty", f"a PersistentDict on a new directory shows {data}")
                continue
            if pending is None:
                fail("harness", f"reopen {tag} without an exit")
                break
            how, touched, before, after, faulted, torn = pending
            pending = None
            if not data["ok"]:
                if torn or poisoned:
                    res.sim.probe("reopen-fails-on-torn-file")
                    return out
                fail("reopen-fails", f"reopening after {how} failed with {data.get('error')}: {data.get('text')}", error=data.get("error"))
                return out
            got = data["contents"]
            if faulted:
                for k in sorted(set(got) | set(before) | set(after)):
                    g = got.get(k, ABSENT)
                    if k in touched:
                        if g != ABSENT and g != before.get(k, ABSENT) and g != after.get(k, ABSENT) and g not in alts.get(k, []):
                            fail("touched-key-garbage", f"after a {how} key {k!r} holds neither its old nor its new value: {_short(g)}", key=k)
                    else:
                        if g != before.get(k, ABSENT):
                            fail("untouched-key-changed", f"after a {how} during an operation that does not touch {k!r} it changed from {_short(before.get(k, ABSENT))} to {_short(g)}", key=k)
            elif how == "crash":
                if got != durable:
                    k = _firstdiff(got, durable)
                    fail("hard-crash-lost-or-stale", f"after a hard crash key {k!r} is {_short(got.get(k, ABSENT))}; last written {_short(durable.get(k, ABSENT))}", key=k)
            else:
                for k in sorted(set(got) | set(live)):
                    g = got.get(k, ABSENT)
                    # (a key that an earlier write error left on disk without its value, or with its old one, is
                    # still shown by the mapping: a clean exit writes what the mapping shows - 'most recently set')
                    lost_by_error = k in errkeys and k in live and live.get(k, ABSENT) != durable.get(k, ABSENT)
                    ok = g == live.get(k, ABSENT) or (k in dirty and not lost_by_error and g == durable.get(k, ABSENT))
                    if not ok:
                        what = "resurrected" if k not in live else ("lost" if g == ABSENT else "stale")
                        fail(f"clean-exit-{what}", f"after a clean exit ({how}) key {k!r} is {_short(g)}; the previous instance last held {_short(live.get(k, ABSENT))}" + (f" (last set/flushed {_short(durable.get(k, ABSENT))})" if k in dirty else ""), key=k)
            if out:
                return out
            live = copy.deepcopy(got)
            durable = copy.deepcopy(got)
            dirty = set()
            errkeys = set()
            continue
        if kind == "exit":
            i = data["i"]
            how = data["how"]
            done = ev[pos][4] if pos < len(ev) and ev[pos][1] == "exit_done" else {"outcome": "?", "fired": {}}
            pos += 1
            if data["live"] != live:
                fail("mapping-differs-from-dict", f"before exit #{i} the mapping shows {_short(data['live'])}, a dict would show {_short(live)}")
                return out
            fired = done.get("fired") or {}
            faulted = bool(fired) or done["outcome"] != "ok"
            if not faulted:
                pending = (how, set(), None, None, False, False)
            else:
                # the finalizer was writing every live key
                pending = (f"faulted clean exit ({done['outcome']})", set(live) | set(durable), copy.deepcopy(durable), copy.deepcopy(live), True, _torn(fired))
            continue
        if kind == "op":
            i = data["i"]
            op = ops[i]
            fired = data.get("fired") or {}
            b_live, b_dur, b_dirty = copy.deepcopy(live), copy.deepcopy(durable), set(dirty)
            if op["op"] == "mutate" and data["outcome"] == "ok" and data.get("ret") is False and op["k"] in live:
                # the harness could not mutate this object (read-only array loaded from disk, scalar): no-op
                exp_outcome, exp_ret, touched = "ok", False, set()
            else:
                exp_outcome, exp_ret, touched = _model_op(op, i, live, durable, dirty)
            # after an injected OSError a key may be in the mapping but not on disk; removing such a key raises
            # KeyError half-way (cache entry gone, no file to delete).  Narrow relaxation: accepted only for
            # operations that touch such a key, and everything they do not touch is still checked.
            alts = {}
            if op["op"] == "update":
                for kk, vv in op["items"]:
                    alts.setdefault(kk, []).append(norm(decode(vv)))
            diverged = {k for k in b_live if k not in b_dur}
            t_all = set(b_live) if op["op"] in ("popitem", "clear") else touched
            # (MutableMapping.clear() swallows that KeyError and stops early)
            after_div = exp_outcome == "ok" and bool(diverged & t_all) and (data["outcome"] == "KeyError" or (data["outcome"] == "ok" and op["op"] == "clear" and data["contents"] != live))
            if after_div:
                res.sim.probe("keyerror-on-key-lost-by-earlier-write-error")
                data = dict(data, text="KeyError (key lost by an earlier write error)")
                touched = t_all
            if data["outcome"] in ("crash", "OSError") or after_div:
                if not fired and not after_div:
                    fail("spurious-error", f"op #{i} {op['op']} ended with {data['outcome']} although no fault was injected: {data.get('text')}")
                    return out
                if op["op"] == "popitem":
                    touched = set(b_live)
                if data["outcome"] == "crash":
                    pending = (f"crash in op #{i} {op['op']}", touched, b_dur, copy.deepcopy(durable), True, _torn(fired))
                    continue
                # OSError: the instance lives on. Check disk now, adopt what is observed.
                disk = data["disk"]
                poisoned = poisoned or _torn(fired)
                if not disk["ok"] and poisoned:
                    res.sim.probe("directory-unreadable-after-write-error")
                    return out
                if not disk["ok"]:
                    fail("disk-unreadable-after-oserror", f"after {data['text']} in op #{i} {op['op']} the directory cannot be opened: {disk.get('error')}")
                    return out
                got = disk["contents"]
                for k in sorted(set(got) | set(b_dur) | set(durable)):
                    g = got.get(k, ABSENT)
                    if k in touched:
                        if g != ABSENT and g != b_dur.get(k, ABSENT) and g != durable.get(k, ABSENT) and g not in alts.get(k, []):
                            fail("touched-key-garbage", f"after {data['text']} in op #{i} key {k!r} holds neither old nor new value", key=k)
                    elif g != b_dur.get(k, ABSENT):
                        fail("untouched-key-changed", f"{data['text']} in op #{i} {op['op']} (touching {sorted(touched)}) changed key {k!r} on disk from {_short(b_dur.get(k, ABSENT))} to {_short(g)}", key=k)
                shown = data["contents"]
                for k in sorted(set(shown) | set(b_live) | set(live)):
                    g = shown.get(k, ABSENT)
                    if k in touched:
                        if g != b_live.get(k, ABSENT) and g != live.get(k, ABSENT) and g not in alts.get(k, []) and not (after_div and g == ABSENT):
                            fail("touched-key-garbage", f"after {data['text']} in op #{i} the mapping shows neither old nor new value for {k!r}", key=k)
                    elif g != b_live.get(k, ABSENT):
                        fail("untouched-key-changed", f"{data['text']} in op #{i} changed the mapping's value of untouched key {k!r}", key=k)
                if out:
                    return out
                live = copy.deepcopy(shown)
                durable = copy.deepcopy(got)
                # keys whose in-memory and on-disk values now differ behave like mutated-in-place keys
                dirty = {k for k in set(live) | set(durable) if live.get(k, ABSENT) != durable.get(k, ABSENT)} | (b_dirty & set(live))
                errkeys |= {k for k in touched if live.get(k, ABSENT) != durable.get(k, ABSENT)}
                continue
            if fired:
                # a fault fired but the operation swallowed it?  (no such path today)
                fail("fault-swallowed", f"op #{i} {op['op']} completed although {fired} was injected")
                return out
            if op["op"] == "popitem" and exp_outcome == "ok" and data["outcome"] == "ok":
                k, v = data["ret"]
                if k not in live or live[k] != v:
                    fail("popitem-wrong", f"popitem returned ({k!r}, {_short(v)}) which is not an item of the mapping")
                    return out
                live.pop(k)
                durable.pop(k, None)
                dirty.discard(k)
                exp_ret = data["ret"]
            if data["outcome"] != exp_outcome:
                fail("outcome-differs-from-dict", f"op #{i} {op} ended with {data['outcome']}; a dict gives {exp_outcome}")
                return out
            if exp_outcome == "ok" and data.get("ret") != exp_ret:
                fail("result-differs-from-dict", f"op #{i} {op['op']} returned {_short(data.get('ret'))}; a dict gives {_short(exp_ret)}")
                return out
            if data["contents"] != live:
                k = _firstdiff(data["contents"], live)
                fail("mapping-differs-from-dict", f"after op #{i} {op['op']} key {k!r} shows {_short(data['contents'].get(k, ABSENT))}; a dict would show {_short(live.get(k, ABSENT))}", key=k)
                return out
    return out


def _torn(fired):
    """May this fault have left a partial file?  (open('wb') creates the file before the first write)"""
    return any(k in fired for k in ("torn", "crash_before", "enospc", "eio"))


def _firstdiff(a, b):
    for k in sorted(set(a) | set(b)):
        if a.get(k, ABSENT) != b.get(k, ABSENT):
            return k
    return None


def _short(x):
    s = repr(x)
    return s if len(s) < 90 else s[:87] + "..."


def nontrivial(res):
    n = [e for e in res.history if e[1] == "reopen" and e[4]["tag"] != "first"]
    return len(n) >= 1 and any(e[1] == "op" for e in res.history)


def trace_key(res):
    import hashlib

    c = res.case
    s = repr(([(o["op"], o.get("how"), o.get("k")) for o in c["ops"]], sorted((k, v["kind"]) for k, v in c["faults"].items())))
    return hashlib.sha256(s.encode()).hexdigest()[:20]
