"""C10 - Interrupting a non-resumable section aborts cleanly.

Workload: plans with 'clear_checkpoint' at varying positions and try/finally cleanup; a pause (from
another thread or a 'pause' message) or a suspender trip at arbitrary handles after it.
Oracle, for every case in which such a request was accepted at or after the clear_checkpoint message:
  the blocking call raises RunEngineInterrupted; the state is 'idle', never 'paused';
  every `finally` block of the plan whose body had been entered logged its cleanup;
  all runs are closed, the ones the engine had to close with exit_status 'abort'.
Requests accepted within 3 handles *before* the clear_checkpoint message are ambiguous (they may take
effect on either side) and are not asserted.
"""

import copy

from sim import gen
from sim.dsl import msg

from . import generic
from .c02 import engine_closed_stops
from .common import V, View, docs_by_run

ID = "C10"
TITLE = "Interrupting a non-resumable section aborts cleanly"
QUICK = {"batches": 160, "wall": 50.0}
THOROUGH = {"batches": 5000, "wall": 900.0}

valid_case = generic.valid_case
SHRINK_PLAN = False


def plan_with_clear(pg):
    rng, S = pg.rng, pg.S
    pre = [msg(S, "open_run"), msg(S, "checkpoint")]
    for _ in range(rng.choice([0, 1, 2])):
        pre.extend(pg.point(devices=pg.dets[:1], checkpoint=0.8))
    nonres = [msg(S, "clear_checkpoint")]
    # (a clean-up that contains a checkpoint is only legal if no event bundle can be open when it starts: these raw
    # message plans do not drop their bundle on the way out, so such plans take no data in the section)
    cleanup_checkpoint = rng.random() < 0.3
    for _ in range(rng.choice([1, 2, 3])):
        kind = rng.choice(["nulls", "sleep", "set", "flip"] if cleanup_checkpoint else ["point", "nulls", "sleep", "set", "flip"])
        if kind == "flip":
            # rewinding switched off and on again inside the section (what trigger_and_read does for a device that
            # cannot be replayed): that is not a checkpoint, the section stays non-resumable
            nonres += [msg(S, "rewindable", None, False), msg(S, "null"), msg(S, "rewindable", None, True), msg(S, "null")]
        elif kind == "point":
            nonres.extend(pg.point(devices=pg.dets[:1], checkpoint=0.0))
        elif kind == "nulls":
            nonres += [msg(S, "null"), msg(S, "null")]
        elif kind == "sleep":
            nonres.append(msg(S, "sleep", None, rng.choice([0.1, 1.0])))
        elif pg.motors:
            g = pg.group()
            nonres += [msg(S, "set", pg.motors[0], rng.choice([1.0, -2.0]), group=g), msg(S, "wait", None, group=g)]
    pg.handled_failure = False
    if pg.motors and rng.random() < 0.25:
        # an operation of the section fails and the plan copes with it (retry / ignore): that changes nothing about
        # the section being non-resumable
        # ('locate' is used nowhere else in these plans: its first call is this one, whatever was skipped before)
        nonres.append({"op": "try", "site": S(), "body": [msg(S, "locate", pg.motors[0])], "handlers": [{"exc": "DeviceFault", "body": [msg(S, "null")], "reraise": False}]})  # (not 'Exception': that would swallow the abort itself)
        nonres += [msg(S, "null"), msg(S, "sleep", None, 0.3), msg(S, "null")]
        pg.handled_failure = True
    elif rng.random() < 0.3:
        nonres.append(msg(S, "pause"))  # a planned pause inside the section
        nonres.append(msg(S, "null"))
    fin_inner = [msg(S, "null")]
    if cleanup_checkpoint:
        # clean-up written as a plan of its own, with its checkpoint (it does not make the aborted plan resumable and
        # a deferred pause still pending must not fire there)
        fin_inner += [msg(S, "checkpoint"), msg(S, "null")]
    if pg.motors:
        g = pg.group()
        fin_inner += [msg(S, "set", pg.motors[0], 0.0, group=g), msg(S, "wait", None, group=g)]
    close = [msg(S, "close_run")] if rng.random() < 0.6 else []
    body = pre + [{"op": "try", "site": S(), "body": nonres + close, "finally": fin_inner}]
    if rng.random() < 0.5:
        d = rng.choice(pg.dets)
        body = [msg(S, "stage", d), {"op": "try", "site": S(), "body": body, "finally": [msg(S, "unstage", d)]}]
    return body


def cases(seed, tier):
    rng = gen.rng_for(ID, seed)
    specs = gen.gen_world(rng, flyers=0, p_async=0.3)
    specs["sigS"] = {"kind": "signal", "initial": 0}
    pg = gen.PlanGen(rng, specs)
    body = plan_with_clear(pg)
    has_planned_pause = any(n.get("cmd") == "pause" for n in _walk(body))
    case = {
        "prop": ID,
        "seed": seed,
        "sim": {"handle_cost": rng.choice([0.0, 0.0, 1e-4])},
        "re": {"record_interruptions": rng.random() < 0.2},
        "devices": specs,
        "suspenders": {"s0": {"cls": "SuspendBoolHigh", "signal": "sigS", "kwargs": {"sleep": rng.choice([0, 0.5])}}},
        "script": [{"do": "install_suspender", "sus": "s0"}, {"do": "call", "plan": body, "main": True}],
    }
    S = pg.S
    case["script"].append({"do": "call", "plan": [msg(S, "null")], "tag": "followup-null"})
    retarget = generic.second_suspender(case, ID, seed)
    ci = generic.main_index(case)
    if has_planned_pause:
        n = 60
        yield case
    else:
        dry, dv, n = generic.dry_run(case)
        if getattr(pg, "handled_failure", False):
            case["devices"][pg.motors[0]].setdefault("faults", {})["locate#0"] = {"kind": "raise", "exc": "RuntimeError"}
    K = 12 if tier == "quick" else 24
    for j in range(K):
        c = copy.deepcopy(case)
        c["variant"] = j
        inj = gen.gen_injections(rng, n, kinds=["pause", "trip", "pause"], k=rng.choice([1, 1, 2]), slack=2)
        if rng.random() < 0.3:
            # a deferred pause asked for a little earlier and still pending when the interruption strikes
            first = min(i_["at"]["step"] for i_ in inj)
            inj.insert(0, {"id": "dp", "at": {"step": max(0, first - rng.choice([1, 2, 4, 8]))}, "do": "dpause"})
        for i in inj:
            if i["do"] == "trip":
                i["args"] = retarget(generic.trip_args(rng))
        c["script"][ci]["inject"] = inj
        c["script"][ci]["decisions"] = [{"do": "resume"}, {"do": "resume"}, {"do": "resume"}]
        yield c


def _walk(body):
    for n in body:
        yield n
        for k in ("body", "finally", "else"):
            if isinstance(n.get(k), list):
                yield from _walk(n[k])


def check(res):
    out = []
    v = View(res)
    if res.aborted:
        return out
    inv = next((i for i in v.invocations if any(s.get("main") for s in [res.case["script"][generic.main_index(res.case)]])), None)
    inv = v.invocations[0]
    evs = inv.events
    clear = next((e for e in evs if e.kind == "msg" and e.d["cmd"] == "clear_checkpoint"), None)
    if clear is None:
        return out
    # requests accepted after the clear_checkpoint message
    hits = []
    ambiguous = False
    for c in inv.calls:
        for b, e in c.accepted("pause", "trip"):
            if b.d["do"] == "trip" and not any(
                x.kind == "state" and x.d["new"] in ("suspending", "aborting") and x.seq > b.seq for x in c.events
            ):
                continue  # the signal changed but no suspension request reached a running plan
            if b.seq > clear.seq:
                hits.append(b.d["do"])
            elif clear.step - b.step <= 3:
                ambiguous = True
    planned = [e for e in evs if e.kind == "msg" and e.d["cmd"] == "pause" and e.seq > clear.seq]
    if planned:
        hits.append("pause-msg")
    if not hits or ambiguous:
        return out
    last = inv.calls[-1]
    if any(c.state == "paused" for c in inv.calls if c.end is not None and c.begin.seq > clear.seq) or any(
        e.kind == "state" and e.d["new"] == "paused" and e.seq > clear.seq for e in evs
    ):
        out.append(V("paused-in-nonresumable-section", f"the engine paused after clear_checkpoint (requests: {hits})", hits=hits))
        return out
    if last.state != "idle":
        out.append(V("not-idle", f"final state {last.state}"))
        return out
    interrupted = [c for c in inv.calls if c.outcome == "raise" and c.exc == "RunEngineInterrupted"]
    if not interrupted:
        done = any(e.kind == "plan" and e.d["what"] == "plan_done" for e in evs)
        # a request accepted so late that the plan had nothing left to run is still an interruption
        out.append(V("interruption-not-reported", f"requests {hits} accepted in the non-resumable section but no call raised RunEngineInterrupted (plan completed: {done})", hits=hits))
    # plan cleanup: every try-block whose body was entered must have logged its finally
    entered = {}
    for e in evs:
        if e.kind == "plan":
            w = e.d["what"]
            if w == "finally":
                entered[e.d["site"]] = True
    # which try sites were entered? those whose first inner message was yielded
    sites_entered = set()

    def first_msg_site(node):
        for n in _walk(node.get("body", [])):
            if n.get("op") == "msg":
                return n.get("site")
        return None

    yielded = {e.d.get("site") for e in evs if e.kind == "plan" and e.d["what"] == "yield"}
    main_plan = res.case["script"][generic.main_index(res.case)]["plan"]
    for n in _walk(main_plan):
        if n.get("op") == "try" and n.get("finally"):
            f = first_msg_site(n)
            if f in yielded:
                sites_entered.add(n["site"])
    for s in sorted(sites_entered):
        if s not in entered:
            out.append(V("cleanup-skipped", f"the finally block of try@{s} never ran although its body had been entered", site=s))
    # ... and it runs to its end: one interruption is one exception thrown into the plan, the clean-up it starts
    # is not hit by a second one (asserted when that interruption is the only thing that happened)
    single = len(hits) == 1 and not any((e.kind == "dev" and e.d.get("fault")) or (e.kind == "status" and not e.d["ok"]) for e in evs)
    if single and not out:

        def last_msg_site(nodes):
            last_ = None
            for n in _walk(nodes):
                if n.get("op") == "msg":
                    last_ = n.get("site")
            return last_

        for n in _walk(main_plan):
            if n.get("op") == "try" and n.get("finally") and n["site"] in sites_entered and n["site"] in entered:
                end = last_msg_site(n["finally"])
                fin_sites = {x.get("site") for x in _walk(n["finally"]) if x.get("op") == "msg"}
                fin_start = next((e.seq for e in evs if e.kind == "plan" and e.d["what"] == "yield" and e.d.get("site") in fin_sites), None)
                # (when the request took effect: the engine's state change, not the moment the other thread asked)
                req_seqs = [e.seq for e in evs if e.kind == "state" and e.d["new"] in ("pausing", "suspending", "aborting") and e.seq > clear.seq]
                if fin_start is None or not req_seqs or max(req_seqs) > fin_start:
                    continue  # the request struck the clean-up itself: it is the clean-up that is interrupted
                if end is not None and end not in yielded:
                    thrown = [e.d for e in evs if e.kind == "plan" and e.d["what"] == "thrown"]
                    out.append(V("cleanup-cut-short", f"the finally block of try@{n['site']} started but its last message ({end}) was never reached; exceptions thrown into the plan: {[(t['exc'], t['site']) for t in thrown]}", site=n["site"]))
                    break
    # runs closed; engine-closed ones with 'abort'
    runs, _ = docs_by_run(evs)
    for uid, docs in runs.items():
        if not any(nm == "stop" for _, nm, _ in docs):
            out.append(V("run-left-open", f"run {uid[:8]} has no RunStop"))
    for e, by_engine in engine_closed_stops(inv):
        if by_engine and e.d["doc"].get("exit_status") != "abort":
            out.append(V("wrong-exit-status", f"engine-closed run has exit_status {e.d['doc'].get('exit_status')!r}, expected 'abort'"))
    return out
