"""C05 - seq_num and num_events account for every event exactly.

Per (run, stream), N = RunStop.num_events[stream]:
  * the set of emitted seq_nums (events, unpacked event pages, stream-datum seq_nums ranges) is exactly 1..N;
  * an emission whose seq_num is <= the previous maximum of its stream is allowed only if a rewind
    (RE.resume() or a suspension) happened since the previous emission in that stream *and* the stream
    is one whose data points are re-taken (filled by create/save bundles);
  * monitor streams, the 'interruptions' stream, collected pages and stream-datum-only streams are
    never replayed: every emission must be previous+1 (fresh seq_nums);
  * stream-datum seq_nums ranges tile the stream's numbering without gap or overlap.
"""

from . import streams
from .common import V, View, docs_by_run

ID = "C05"
TITLE = "seq_num and num_events account for every event exactly"
QUICK = {"batches": 150, "wall": 50.0}
THOROUGH = {"batches": 5000, "wall": 900.0}
SHRINK_PLAN = False


def cases(seed, tier):
    yield from streams.stream_cases(ID, seed, tier, read_faults=0.25)


def check_numbering(evs):
    out = []
    rewinds = [e.seq for e in evs if (e.kind == "call_begin" and e.d["api"] == "resume") or (e.kind == "msg" and e.d["cmd"] == "_start_suspender")]
    monitor_names = {e.d["kw"].get("name") for e in evs if e.kind == "msg" and e.d["cmd"] == "monitor"}
    runs, _ = docs_by_run(evs)
    # which 'save' message was being executed when each event document was emitted
    save_mid = {}
    cur = None
    for e in evs:
        if e.kind == "msg":
            cur = e.d["mid"] if e.d["cmd"] == "save" else None
        elif e.kind == "cmd" and cur is not None and e.d["mid"] == cur:
            cur = None
        elif e.kind == "doc" and e.d["name"] == "event" and cur is not None:
            save_mid[e.seq] = cur
    for uid, docs in runs.items():
        desc = {}
        emis = {}  # stream -> [(seq, kind, [seq_nums])]
        stop = None
        for seq, name, doc in docs:
            if name == "descriptor":
                desc[doc["uid"]] = doc["name"]
                emis.setdefault(doc["name"], [])
            elif name == "event":
                emis.setdefault(desc.get(doc["descriptor"]), []).append((seq, "event", [doc["seq_num"]]))
            elif name == "event_page":
                emis.setdefault(desc.get(doc["descriptor"]), []).append((seq, "page", list(doc["seq_num"])))
            elif name == "stream_datum":
                r = doc["seq_nums"]
                emis.setdefault(desc.get(doc["descriptor"]), []).append((seq, "datum:" + doc["stream_resource"], list(range(r["start"], r["stop"]))))
            elif name == "stop":
                stop = doc
        if stop is None:
            continue
        ne = stop.get("num_events", {})
        for stream, lst in emis.items():
            kinds = {k.split(":")[0] for _, k, _ in lst}
            retaken = kinds == {"event"} and stream not in monitor_names and stream != "interruptions"
            N = ne.get(stream, 0)
            seen = set()
            per_resource = {}
            prev_max = 0
            last = 0
            prev_seq = None
            for seq, kind, nums in lst:
                if kind.startswith("datum:"):
                    # several data keys of one stream each carry their own stream_datum for the same frames
                    pm = per_resource.get(kind, 0)
                    if nums and nums[0] != pm + 1:
                        out.append(V("stream-datum-gap", f"stream {stream!r}: stream_datum seq_nums start at {nums[0]}, previous range of the same resource ended at {pm}", stream=stream))
                    if nums:
                        per_resource[kind] = nums[-1]
                    seen.update(nums)
                    continue
                for n_ in nums:
                    if n_ == last + 1:
                        if n_ <= prev_max and not retaken:
                            out.append(V("seq-num-repeated", f"stream {stream!r} (never replayed): seq_num {n_} emitted again", stream=stream, retaken=False))
                    elif n_ <= last:
                        # going back: only a rewind can do that, and only for re-taken data points
                        rew = any(prev_seq is not None and prev_seq < r < seq for r in rewinds)
                        if not (retaken and rew):
                            out.append(
                                V(
                                    "seq-num-repeated",
                                    f"stream {stream!r} ({'re-taken' if retaken else 'never replayed'}): seq_num {n_} emitted after {last} (rewind in between: {rew})",
                                    stream=stream,
                                    retaken=retaken,
                                )
                            )
                    else:
                        out.append(V("seq-num-gap", f"stream {stream!r}: seq_num {n_} follows {last}", stream=stream))
                    last = n_
                    prev_max = max(prev_max, n_)
                    seen.add(n_)
                prev_seq = seq
            if seen != set(range(1, N + 1)):
                out.append(
                    V(
                        "num-events-mismatch",
                        f"stream {stream!r}: emitted seq_nums {sorted(seen)[:12]} but RunStop.num_events = {N}",
                        stream=stream,
                        emitted=len(seen),
                        N=N,
                    )
                )
        # a seq_num may be emitted again only for the *same* data point (the same 'save' message, executed again after
        # a rewind): within a stream, seq_num <-> save message is one to one
        owner = {}  # (stream, seq_num) -> mid of the save message
        numof = {}  # (stream, mid) -> seq_num
        for seq, name, doc in docs:
            if name != "event":
                continue
            mid = save_mid.get(seq)
            if mid is None:
                continue
            stream = desc.get(doc["descriptor"])
            k1, k2 = (stream, doc["seq_num"]), (stream, mid)
            if owner.setdefault(k1, mid) != mid:
                out.append(V("seq-num-shared-by-two-data-points", f"stream {stream!r}: seq_num {doc['seq_num']} was given to two different data points (save messages #{owner[k1]} and #{mid})", stream=stream))
            if numof.setdefault(k2, doc["seq_num"]) != doc["seq_num"]:
                out.append(V("data-point-renumbered", f"stream {stream!r}: the data point of save message #{mid} was emitted as seq_num {numof[k2]} and again as {doc['seq_num']}", stream=stream))
        for stream, N in ne.items():
            if stream not in emis and N != 0:
                out.append(V("num-events-mismatch", f"stream {stream!r} reported with {N} events but no descriptor was emitted", stream=stream))
    return out


def check(res):
    v = View(res)
    if res.aborted:
        return []
    out = []
    for inv in v.invocations:
        if inv.calls and inv.calls[-1].end is not None:
            out.extend(check_numbering(inv.events))
    return out
