"""C22 - Cleanup wrappers run their cleanup exactly once on every exit path.

Differential: each generated program  try: BODY  [except Exception: EXC]  [else: ELSE]  [finally: FIN]
is rendered twice -- with the bluesky wrapper (finalize_wrapper with a generator instance or a generator
function, finalize_decorator, contingency_wrapper(except_plan=, else_plan=, final_plan=, auto_raise=)) and
with a native try/except/else/finally (the DSL's `try` node, which like the wrappers does not run its
finally clause when the generator is closed) -- and both are run under the same case: same device faults
at the same operations (including inside the cleanup plan itself), the same stop / abort / halt injections
at the same loop handles, the same pause and rewind.
Oracle: identical message traces, identical yield-site logs (responses, exceptions thrown, closes),
identical documents and identical outcome of RE(...) (exception type and text, or the return value); in
particular the cleanup plan's messages appear exactly once on return, on a device exception and on
RequestStop / RequestAbort, and not at all when the engine closes the generator (halt).
"""

import copy

from sim import gen
from sim.dsl import msg

from . import generic, grammar
from .common import V, View

ID = "C22"
TITLE = "Cleanup wrappers run their cleanup exactly once on every exit path"
QUICK = {"batches": 150, "wall": 50.0}
THOROUGH = {"batches": 5000, "wall": 900.0}
SHRINK_PLAN = False

FORMS = ["finalize_wrapper:gen", "finalize_wrapper:fn", "finalize_decorator", "contingency", "contingency", "contingency"]


def cases(seed, tier):
    rng = gen.rng_for(ID, seed)
    specs = grammar.world(rng)
    pg = gen.PlanGen(rng, specs)
    form = rng.choice(FORMS)
    prog = {
        "form": form,
        "body": grammar.gen_stmts(pg, n=rng.choice([1, 2, 3, 4])),
        "final": grammar.gen_stmts(pg, depth=1, n=rng.choice([1, 2]), allow_return=False),
    }
    if form == "contingency":
        if rng.random() < 0.7:
            prog["except"] = grammar.gen_stmts(pg, depth=1, n=rng.choice([0, 1, 2]), allow_return=False)
        if rng.random() < 0.5:
            prog["else"] = grammar.gen_stmts(pg, depth=1, n=rng.choice([1, 2]), allow_return=False)
        if rng.random() < 0.25:
            prog["final"] = None
        prog["auto_raise"] = rng.random() < 0.6
    S = pg.S
    pre = [msg(S, "null")] if rng.random() < 0.5 else []
    post = [msg(S, "null")] if rng.random() < 0.5 else []
    case = {
        "prop": ID,
        "seed": seed,
        "sim": {},
        "re": {"call_returns_result": True},
        "devices": specs,
        "prog": prog,
        "pre": pre,
        "post": post,
        "script": [{"do": "call", "plan": pre + [render(prog, wrapper=True)] + post, "main": True}],
    }
    dry = generic.run_case(case)
    dv = View(dry)
    n = dv.calls[0].end.d["steps"] if dv.calls and dv.calls[0].end else 20
    yield case
    K = 12 if tier == "quick" else 24
    for j in range(K):
        c = grammar.schedule(rng, case, dv, n)
        c["variant"] = j
        yield c
    # finalize_wrapper(pause_for_debug=True): the wrapped plan fails, the wrapper pauses for the user to look, and the
    # user then resumes (clean-up runs, the error is raised), stops / aborts (clean-up runs) or halts (no clean-up)
    motors0 = gen.names(specs, "motor", "pmotor")
    if motors0:
        m0 = motors0[0]
        for j, decision in enumerate(rng.sample(["halt", "resume", "abort", "stop"], 2)):
            g0 = pg.group()
            prog3 = {
                "form": rng.choice(["finalize_wrapper:gen", "finalize_wrapper:fn"]),
                "pause_for_debug": True,
                "body": [msg(S, "checkpoint"), msg(S, "set", m0, 3.0, group=g0), msg(S, "wait", None, group=g0), msg(S, "null")],
                "final": [msg(S, "null"), msg(S, "sleep", None, 0.1), msg(S, "null")],
            }
            c = copy.deepcopy(case)
            c["variant"] = f"pause-for-debug-then-{decision}"
            c["prog"] = prog3
            c["script"] = [{"do": "call", "plan": c["pre"] + [render(prog3, wrapper=True)] + c["post"], "main": True, "decisions": [{"do": decision}]}]
            for d_ in c["devices"].values():
                d_.pop("faults", None)
            c["devices"][m0]["faults"] = {"set#0": {"kind": "status_fail", "exc": "RuntimeError", "delay": 0.1}}
            yield c
    # two things pending at once: a status nobody waits for yet fails while a long message of the wrapped plan is in
    # flight, then a stop / abort arrives.  Whichever of the two the plan is told about, it is told once: the
    # cleanup that follows is not hit by the other one afterwards
    motors = gen.names(specs, "motor", "pmotor")
    if motors:
        m = motors[0]
        for j in range(2):
            g, g2 = pg.group(), pg.group()
            prog2 = {
                "form": rng.choice(FORMS[:3] + ["contingency"]),
                "body": [msg(S, "set", m, 4.0, group=g), msg(S, "sleep", None, 1.0), msg(S, "wait", None, group=g), msg(S, "null")],
                "final": [msg(S, "null"), msg(S, "sleep", None, 0.2), msg(S, "null")],
            }
            if prog2["form"] == "contingency":
                prog2["auto_raise"] = True
            c = copy.deepcopy(case)
            c["variant"] = f"failed-status-pending-then-terminator-{j}"
            c["prog"] = prog2
            c["script"] = [{"do": "call", "plan": c["pre"] + [render(prog2, wrapper=True)] + c["post"], "main": True}]
            for d_ in c["devices"].values():
                d_.pop("faults", None)
            c["devices"][m]["velocity"] = 1.0
            c["devices"][m]["faults"] = {"set#0": {"kind": "status_fail", "exc": "RuntimeError", "delay": rng.choice([0.1, 0.3])}}
            c["script"][0]["inject"] = [{"id": "t0", "at": {"time": rng.choice([0.5, 0.7])}, "do": rng.choice(["abort", "stop"])}]
            yield c


def render(prog, wrapper):
    form = prog["form"]
    if not wrapper:
        node = {"op": "try", "site": "ref", "body": prog["body"]}
        if prog.get("except") is not None:
            node["handlers"] = [{"exc": "Exception", "body": prog["except"], "reraise": prog.get("auto_raise", True)}]
        if prog.get("else") is not None:
            node["else"] = prog["else"]
        if prog.get("final") is not None:
            node["finally"] = prog["final"]
        if prog.get("pause_for_debug"):
            # finalize_wrapper(pause_for_debug=True): on an exception, pause first, then re-raise into the clean-up
            node["handlers"] = [{"exc": "BaseException", "body": [{"op": "msg", "cmd": "pause", "kw": {"defer": False}, "site": "dbgpause"}], "reraise": True}]
        return node
    if form.startswith("finalize_wrapper"):
        return {"op": "wrap", "name": "finalize_wrapper", "final": prog["final"], "final_form": form.split(":")[1], "body": prog["body"], "pause_for_debug": bool(prog.get("pause_for_debug"))}
    if form == "finalize_decorator":
        return {"op": "wrap", "name": "finalize_decorator", "final": prog["final"], "body": prog["body"]}
    node = {"op": "wrap", "name": "contingency_wrapper", "body": prog["body"], "auto_raise": prog.get("auto_raise", True)}
    for k in ("except", "else", "final"):
        if prog.get(k) is not None:
            node[k] = prog[k]
    return node


def reference_case(case):
    c = copy.deepcopy(case)
    c["script"][0]["plan"] = c["pre"] + [render(c["prog"], wrapper=False)] + c["post"]
    return c


def _keep(x):
    # the native rendering logs its own clause markers ('except', 'else', 'finally'); compare what both have
    if x[0] == "plan" and x[2] == "dbgpause":
        return False  # the reference's own debug pause is a DSL message (logged); the wrapper's is the library's
    return not (x[0] == "plan" and x[1] in ("except", "else", "finally", "finally_skipped_on_close", "wrap_ret"))


def _sites(nodes):
    out = set()
    for n in nodes or []:
        if n.get("site") is not None:
            out.add(n["site"])
        for k in ("body", "finally", "else", "final", "except"):
            if isinstance(n.get(k), list):
                out |= _sites(n[k])
        for h in n.get("handlers") or []:
            out |= _sites(h.get("body"))
    return out


def stale_exception_in_cleanup(res):
    """Absolute rule (the differential cannot see an engine that treats both renderings alike): once the cleanup
    plan has started, an exception is thrown into it only for something that happened after it started (a device
    operation of the cleanup failing, a status finishing unsuccessfully, a new request).  A failure or request
    from before - the very one the cleanup is running for - is not delivered a second time, in the middle of it."""
    fin = _sites(res.case["prog"].get("final"))
    if not fin:
        return []
    v = View(res)
    evs = v.evs
    start_ev = next((e for e in evs if e.kind == "plan" and e.d["what"] == "yield" and e.d.get("site") in fin), None)
    if start_ev is None:
        return []
    start = start_ev.seq
    # (a status that the device finished a loop step or two before the clean-up began reaches the engine - through
    # call_soon_threadsafe - only after it: that failure is news to the engine while the clean-up runs)
    late_news = any(e.kind == "status" and not e.d["ok"] and start_ev.step - 3 <= e.step and e.seq < start and abs(e.t - start_ev.t) < 1e-9 for e in evs)
    if late_news:
        return []
    for t in evs:
        if t.kind == "plan" and t.d["what"] == "thrown" and t.d.get("site") in fin and t.seq > start:
            cause = any(
                start < e.seq < t.seq
                and (
                    (e.kind == "dev" and e.d.get("fault"))
                    or (e.kind == "status" and not e.d["ok"])
                    or e.kind == "inject_begin"
                    or (e.kind == "state" and e.d["new"] in ("stopping", "aborting", "halting", "pausing", "suspending"))
                    or (e.kind == "call_begin" and e.d["api"] != "call")
                    or (e.kind == "cmd" and e.d["end"] == "error")
                )
                for e in evs
            )
            if not cause:
                return [V("stale-exception-thrown-into-cleanup", f"{t.d['exc']} was thrown into the cleanup plan at site {t.d['site']} although nothing failed and nothing was requested since the cleanup started", exc=t.d["exc"])]
            break
    return []


def check(res):
    if res.aborted:
        return []
    own = stale_exception_in_cleanup(res)
    if own:
        return own
    return grammar.differential(
        res, reference_case(res.case), "differs-from-native-try:" + res.case["prog"]["form"], "wrapper vs native try/except/else/finally", site_filter=_keep
    )
