"""C13 - Each yield receives the response to its own message.

Workload: DSL plans in which every yield site logs what it was sent back, run bare or under
plan_mutator-based preprocessors (baseline_wrapper, SupplementalData with baseline/monitors), with
pauses+resumes and suspensions at arbitrary handles -- in particular while a message that really awaits
(wait, sleep, an async read, any first read of a device) is in flight.
Oracle (identity of objects, not just equality):
  * the value a site receives is the object the engine's command coroutine returned for *that* Msg object
    in its most recent completed execution (a replay after a rewind counts); never a response that
    belongs to another message, never None when the message was (re-)executed and returned a value;
  * per command: open_run -> the uid of the RunStart emitted for it; close_run -> that run's uid;
    read -> the very dict the device returned; set/trigger/kickoff/complete -> the status object the
    device returned; wait -> True; stage/unstage -> the device's return value; rewindable -> the flag;
    subscribe -> an int; null/checkpoint/create/save/drop/sleep/clear_checkpoint -> None;
  * RE(...) / resume() return the uids of the runs the call opened, in order; with
    call_returns_result=True also the plan's return value and exit_status 'success'.
"""

import copy

from sim import gen
from sim.devices import SimStatus
from sim.dsl import msg

from . import generic
from .common import V, View, monitor_lost_in_flight, replayed_response_lost

ID = "C13"
TITLE = "Each yield receives the response to its own message"
QUICK = {"batches": 150, "wall": 50.0}
THOROUGH = {"batches": 5000, "wall": 900.0}

valid_case = generic.valid_case
NONE_CMDS = {"null", "checkpoint", "create", "save", "drop", "sleep", "clear_checkpoint", "monitor", "unmonitor", "unsubscribe", "stop", "pause"}
STATUS_CMDS = {"set", "trigger", "kickoff", "complete"}
GROUP_CMDS = STATUS_CMDS | {"stage", "unstage"}  # messages whose status joins the group named in their kwargs


def cases(seed, tier):
    rng = gen.rng_for(ID, seed)
    pre = []
    r = rng.random()
    # the message-inserting preprocessors do not support run keys: single-key plans under them
    base = generic.base_case(
        ID, seed, rng, suspender=0.7, flyers=rng.choice([0, 1]), followups=False, callbacks=True, plan_opts={"nonrewind": 0.3, **({"nested": 0.0} if r < 0.5 else {})}
    )
    base["re"]["call_returns_result"] = rng.random() < 0.5
    specs = base["devices"]
    dets = gen.names(specs, "det", "pdet")
    if r < 0.25:
        pre = [{"name": "baseline_wrapper", "args": [{"devs": dets[-1:]}]}]
    elif r < 0.5:
        pre = [{"name": "SupplementalData", "baseline": {"devs": dets[-1:]}, "monitors": {"devs": ["sig1"]}, "flyers": []}]
    base["re"]["preprocessors"] = pre
    if pre:
        # the generic plan may itself monitor sig1; SupplementalData would monitor it twice
        ci = generic.main_index(base)
        base["script"][ci]["plan"] = [n for n in _strip_monitor(base["script"][ci]["plan"])]
    retarget = generic.second_suspender(base, ID, seed)
    dry, dv, n = generic.dry_run(base)
    yield base
    ci = generic.main_index(base)
    K = 12 if tier == "quick" else 24
    kinds = ["pause", "pause"] + (["trip", "trip"] if base["suspenders"] else [])
    for j in range(K):
        c = copy.deepcopy(base)
        c["variant"] = j
        inj = gen.gen_injections(rng, n, kinds=kinds, k=rng.choice([1, 1, 2, 3]), slack=2)
        for i in inj:
            if i["do"] == "trip":
                i["args"] = retarget(generic.trip_args(rng))
        c["script"][ci]["inject"] = inj
        decs = []
        for _ in range(5):
            d = {"do": "resume"}
            if rng.random() < 0.4:
                d["inject"] = gen.gen_injections(rng, n, kinds=kinds, k=1, slack=2)
                for i in d["inject"]:
                    if i["do"] == "trip":
                        i["args"] = retarget(generic.trip_args(rng))
            decs.append(d)
        c["script"][ci]["decisions"] = decs
        c["script"][ci]["final"] = "resume"
        yield c
    # a two-call history: the first call leaves a status pending in a group it never waits for (a long exposure);
    # the next call uses the same group name - its 'wait' answers for its own messages only
    dets = gen.names(specs, "det", "pdet")
    if len(dets) >= 1:
        from sim.dsl import SiteCounter, msg

        for j in range(2):
            S2 = SiteCounter()
            slow, fast = dets[0], dets[-1]
            gname = rng.choice(["gX", None]) if False else "gX"
            first = [msg(S2, "checkpoint"), msg(S2, "trigger", slow, group=gname), msg(S2, "null")]
            second = [msg(S2, "checkpoint"), msg(S2, "trigger", fast, group=gname)]
            if rng.random() < 0.5:
                second += [msg(S2, "wait", None, group=gname, timeout=2.0)]
            else:
                second += [msg(S2, "wait", None, group=gname, timeout=2.0, error_on_timeout=False)]
            second += [msg(S2, "null")]
            c = {
                "prop": ID,
                "seed": seed,
                "variant": f"group-reused-by-next-call-{j}",
                "sim": {"handle_cost": 0.0},
                "re": {},
                "devices": copy.deepcopy(specs),
                "suspenders": {},
                "script": [{"do": "call", "plan": first, "tag": "leaves-status-pending"}, {"do": "call", "plan": second, "main": True}],
            }
            for d_ in c["devices"].values():
                d_.pop("faults", None)
            c["devices"][slow]["trigger_delay"] = 30.0
            if fast != slow:
                c["devices"][fast]["trigger_delay"] = 0.1
            else:
                # one detector only: the second exposure is short, the first one (occurrence 0) long
                c["devices"][slow]["trigger_delay"] = 0.1
                c["devices"][slow]["faults"] = {"trigger#0": {"kind": "slow", "delay": 30.0}}
            yield c
    yield from reused_message_cases(seed, tier, rng, specs)


def reused_message_cases(seed, tier, rng, specs):
    """A plan that keeps its Msg objects and yields them again (a list of messages run twice, caching_repeater, a
    retry loop): the second pass is answered like the first - in particular every 'wait' is about the statuses
    of this pass."""
    from sim.dsl import SiteCounter, msg

    dets = gen.names(specs, "det", "pdet")
    motors = gen.names(specs, "motor", "pmotor")
    if not dets:
        return
    for j in range(2):
        S2 = SiteCounter("r")
        d = dets[0]
        one = [msg(S2, "stage", d, group="gs"), msg(S2, "wait", None, group="gs"), msg(S2, "checkpoint")]
        if motors and rng.random() < 0.7:
            one += [msg(S2, "set", motors[0], 2.0 + j, group="gm")]
        one += [msg(S2, "trigger", d, group="gt"), msg(S2, "wait", None, group="gt")]
        if any(n_.get("cmd") == "set" for n_ in one):
            one += [msg(S2, "wait", None, group="gm")]
        one += [msg(S2, "unstage", d, group="gu"), msg(S2, "wait", None, group="gu"), msg(S2, "null")]
        for n_ in one:
            n_["reuse"] = True
        c = {
            "prop": ID,
            "seed": seed,
            "variant": f"same-message-objects-yielded-twice-{j}",
            "sim": {"handle_cost": 0.0},
            "re": {},
            "devices": copy.deepcopy(specs),
            "suspenders": {},
            "script": [{"do": "call", "plan": [{"op": "repeat", "n": 2, "body": one}], "main": True}],
        }
        for d_ in c["devices"].values():
            d_.pop("faults", None)
        c["devices"][d]["stage_status"] = True
        c["devices"][d]["delays"] = {"stage": rng.choice([0.2, 0.5]), "unstage": rng.choice([0.0, 0.3])}
        c["devices"][d]["trigger_delay"] = 0.3
        if rng.random() < 0.5:
            c["script"][0]["inject"] = [{"id": "p0", "at": {"time": rng.choice([0.35, 0.6, 1.2])}, "do": "pause"}]
            c["script"][0]["decisions"] = [{"do": "resume"}]
            c["script"][0]["final"] = "resume"
        yield c


def _strip_monitor(body):
    out = []
    for n in body:
        if n.get("op") == "msg" and n.get("cmd") in ("monitor", "unmonitor"):
            continue
        n = dict(n)
        for k in ("body", "finally", "else"):
            if isinstance(n.get(k), list):
                n[k] = _strip_monitor(n[k])
        out.append(n)
    return out


def check(res):
    out = []
    v = View(res)
    res.notes = {}
    if res.aborted:
        return out
    ctx, world = res.ctx, res.world
    if str(res.case.get("variant", "")).startswith("group-reused-by-next-call"):
        res.notes["group_reused_by_next_call"] = 1
        call = [c for c in v.calls if c.api == "call"][-1]
        if call.outcome != "return":
            out.append(V("wait-answered-for-another-calls-status", f"the second call's wait on its own (finished) trigger ended {call.outcome}/{call.exc}: {call.end.d['text'][:120]}"))
        for site, mid, r, at in ctx.responses:
            e = next((x for x in v.of("msg") if x.d["mid"] == mid), None)
            if e is not None and e.d["cmd"] == "wait" and e.seq > call.begin.seq and r is not True:
                out.append(V("wait-answered-for-another-calls-status", f"the second call's wait was answered {r!r} although everything this call put into the group had finished"))
        return out
    # --- (1) identity with the engine's own response for that message
    ok_results = {}  # mid -> list of summaries of completed executions (for messages)
    for e in v.of("cmd"):
        if e.d["end"] == "ok":
            ok_results.setdefault(e.d["mid"], []).append(e.d.get("value"))
    cmd_of = {e.d["mid"]: e.d["cmd"] for e in v.of("msg")}
    obj_of = {e.d["mid"]: e.d["obj"] for e in v.of("msg")}
    start_uids = [e.d["doc"]["uid"] for e in v.of("doc") if e.d["name"] == "start"]
    for site, mid, r, at in ctx.responses:
        cmd = cmd_of.get(mid)
        if cmd is None:
            continue
        res.notes["responses_checked"] = res.notes.get("responses_checked", 0) + 1
        done = [x for s, x in ctx.cmd_results.get(mid, []) if s < at]
        if done:
            # any completed execution of that very message counts (the first one or a replay after a rewind:
            # the statement does not say which); shown in the report: the most recent one
            want = done[-1]
            if not any(r is x or (r == x and isinstance(r, (str, bool, int, float, type(None), tuple))) for x in done):
                out.append(
                    V(
                        "wrong-response:" + cmd,
                        f"site {site} yielded {cmd} (message #{mid}) and was sent {_short(r)} but the engine's response to that message was {_short(want)}",
                        cmd=cmd,
                        got_none=r is None,
                    )
                )
                continue
        elif r is not None:
            out.append(V("response-without-execution:" + cmd, f"site {site}: {cmd} never completed but the plan was sent {_short(r)}", cmd=cmd))
            continue
        else:
            # the message never completed (cancelled in flight and never re-executed) yet the plan moved on
            out.append(V("message-lost:" + cmd, f"site {site}: {cmd} (message #{mid}) never completed, the plan was sent None and carried on", cmd=cmd))
            continue
        # --- (2) per-command meaning of the engine's response
        if cmd in NONE_CMDS and r is not None:
            out.append(V("non-none-response:" + cmd, f"{cmd} answered {_short(r)}"))
        elif cmd == "read":
            dev = world.get(obj_of[mid])
            if dev is not None and not any(r is x for x in dev.readings):
                out.append(V("read-not-device-reading", f"read({obj_of[mid]}) answered {_short(r)} which is not a dict returned by the device"))
        elif cmd in STATUS_CMDS:
            if not isinstance(r, SimStatus) or r.dev != obj_of[mid] or r.op != cmd:
                out.append(V("status-mismatch:" + cmd, f"{cmd}({obj_of[mid]}) answered {_short(r)}"))
        elif cmd == "wait" and r is not True:
            out.append(V("wait-not-true", f"wait answered {_short(r)}"))
        elif cmd == "open_run" and r not in start_uids:
            out.append(V("open-run-uid", f"open_run answered {r!r} which is not the uid of an emitted RunStart"))
        elif cmd == "close_run" and r not in start_uids:
            out.append(V("close-run-uid", f"close_run answered {r!r}"))
        elif cmd == "subscribe" and not isinstance(r, int):
            out.append(V("subscribe-token", f"subscribe answered {_short(r)}"))
    # --- (2b) the answer to a 'wait' is about the group as the plan named it: when wait(g) answers, the status
    # returned by the most recent execution of every message the plan yielded with group=g is done (not asserted
    # when a status of the group failed - the wait then ends early and the failure is reported - or with a timeout)
    first_kw = {}
    for e in v.of("msg"):
        first_kw.setdefault(e.d["mid"], e.d.get("kw") or {})
    status_done = {}  # sid -> seq at which the status finished
    failed_any = False
    for e in v.evs:
        if e.kind == "status":
            status_done.setdefault(e.d["sid"], e.seq)
            failed_any = failed_any or not e.d["ok"]
    if not failed_any:
        for w in v.of("cmd"):
            if w.d["cmd"] != "wait" or w.d["end"] != "ok":
                continue
            kw = first_kw.get(w.d["mid"], {})
            g = kw.get("group")
            if g is None or kw.get("timeout") is not None or kw.get("error_on_timeout") is False:
                continue
            for mid, kw2 in first_kw.items():
                if cmd_of.get(mid) not in GROUP_CMDS or kw2.get("group") != g:
                    continue
                execs = [(s_, x) for s_, x in ctx.cmd_results.get(mid, []) if s_ < w.seq and isinstance(x, SimStatus)]
                if not execs:
                    continue
                s_, st = execs[-1]
                res.notes["waits_checked_against_status"] = res.notes.get("waits_checked_against_status", 0) + 1
                fin = status_done.get(st.sid)
                if fin is None or fin > w.seq:
                    out.append(
                        V(
                            "wait-answered-while-group-busy",
                            f"wait(group={g!r}) answered at #{w.seq} while the status of the latest {cmd_of[mid]}({obj_of[mid]}, group={g!r}) (message #{mid}, executed at #{s_}) was not done (finished at #{fin})",
                            cmd=cmd_of[mid],
                        )
                    )
                    break
    # --- (3) what RE(...) returns
    for inv in v.invocations:
        last = inv.calls[-1]
        if last.end is None or last.outcome != "return":
            continue
        uids = [e.d["doc"]["uid"] for e in inv.of("doc") if e.d["name"] == "start"]
        val = last.end.d["value"]
        if isinstance(val, dict):
            if val.get("uids") != uids:
                out.append(V("returned-uids", f"RunEngineResult.run_start_uids {val.get('uids')} vs opened {uids}"))
            done = [e for e in inv.of("plan") if e.d["what"] == "plan_done"]
            if done and val.get("plan_result") != done[-1].d["value"]:
                out.append(V("returned-plan-result", f"plan_result {val.get('plan_result')!r} vs the plan's return value {done[-1].d['value']!r}"))
            if val.get("exit_status") != "success" or val.get("interrupted"):
                out.append(V("returned-exit-status", f"completed plan reported exit_status={val.get('exit_status')} interrupted={val.get('interrupted')}"))
        elif val != uids:
            out.append(V("returned-uids", f"returned {val} vs opened {uids}"))
    return out


def _short(x):
    s = repr(x)
    return s if len(s) < 80 else s[:77] + "..."


def _d12(v, res):
    return v["cls"].startswith("wrong-response:") and v["facts"].get("got_none") and bool(replayed_response_lost(res))


KNOWN_PREDICATES = {
    "replayed_response_lost": _d12,
    "monitor_lost_in_flight": lambda v, res: v["cls"] in ("message-lost:monitor",) and monitor_lost_in_flight(res),
}
