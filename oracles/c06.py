"""C06 - Devices are always left cleaned up when the RunEngine goes idle.

Oracle on the device-call ledger at every return to idle (per invocation):
 (a) per device: successful stage() calls == unstage() calls that were made (an unstage that was made
     to raise still counts as the attempt the engine owes; but then at least one later attempt or the
     same count is required) -- checked as: #unstage attempts >= #successful stages, and
     #successful unstage == #successful stage unless an unstage fault was injected on that device;
 (b) every device with a successful set() has a stop() call later than its last set();
 (c) every flyer with a successful kickoff() in a run that was still open has a later
     collect / collect_pages / describe_collect call (collected, or a collection attempted);
 (d) no callback installed by the engine (monitor) remains in any device's subscription table;
 (e) per-call subscriptions (subs= argument, 'subscribe' message) receive no document of the next call.
After halt only the engine's own cleanup is owed (b, c, d and leftover unstage) -- which is what is
checked: the plan's own cleanup blocks are never required here.
"""

from . import generic
from sim import gen
from sim.dsl import SiteCounter

from .common import V, View

ID = "C06"
TITLE = "Devices are always left cleaned up when the RunEngine goes idle"
QUICK = {"batches": 200, "wall": 50.0}
THOROUGH = {"batches": 6000, "wall": 900.0}

valid_case = generic.valid_case


def cases(seed, tier):
    yield from generic.interruption_cases(ID, seed, tier, dev_faults=0.4, K=(12, 20), flyers=1, callbacks=True)
    # the same kind of run written the way the built-in plans write it: run_wrapper closes the run itself on the way
    # out (abort, stop, failure), so the engine's end-of-call clean-up finds no open run any more
    rng = gen.rng_for(ID, seed, "wrapped")
    base = generic.base_case(ID, seed, rng, suspender=0.3, flyers=1, followups=True, plan_opts={"builtin": 0.0})
    pg = gen.PlanGen(rng, base["devices"], sites=SiteCounter())
    block = pg.run_block(fly=1.0, monitor=0.5, npoints=rng.choice([1, 2]))
    inner = block[1:-1]
    base["script"][generic.main_index(base)]["plan"] = pg.staged([{"op": "wrap", "name": "run_wrapper", "kw": {"md": {"wrapped": True}}, "body": inner}], style=rng.choice(["finally", "none"]))
    base["script"] = [s for s in base["script"] if s.get("tag") != "followup-run" or True]
    yield from generic.interruption_cases(ID, seed, tier, dev_faults=0.3, K=(5, 10), rng=rng, base=base)


def check(res):
    out = []
    v = View(res)
    if res.aborted:
        return out
    refused = set()
    for ii, inv in enumerate(v.invocations):
        if not inv.calls or inv.calls[-1].end is None or inv.final_state != "idle":
            continue
        evs = inv.events
        dev = [e for e in evs if e.kind == "dev"]
        per = {}
        for e in dev:
            per.setdefault(e.d["dev"], []).append(e)
        for name, calls in per.items():
            ok = lambda e: e.d.get("fault") != "raise"  # noqa: E731
            stages = [e for e in calls if e.d["method"] == "stage" and ok(e)]
            unst = [e for e in calls if e.d["method"] == "unstage"]
            unst_ok = [e for e in unst if ok(e)]
            unstage_faulted = any(not ok(e) for e in unst)
            # (an unstage() of a device that was never staged - stage_wrapper interrupted while still staging
            # unstages its whole list - leaves nothing behind: more unstages than stages is not asserted)
            if len(unst) < len(stages) or (not unstage_faulted and len(unst_ok) < len(stages)):
                out.append(
                    V(
                        "stage-unstage-imbalance",
                        f"{name}: {len(stages)} successful stage(), {len(unst_ok)} successful / {len(unst)} attempted unstage()",
                        dev=name,
                        stages=len(stages),
                        unstages=len(unst_ok),
                    )
                )
            elif stages and unst and unst[-1].seq < stages[-1].seq:
                out.append(V("staged-at-idle", f"{name}: last stage() is later than the last unstage()", dev=name))
            sets = [e for e in calls if e.d["method"] == "set" and ok(e)]
            if sets:
                stops = [e for e in calls if e.d["method"] == "stop" and e.seq > sets[-1].seq]
                if not stops:
                    out.append(V("set-without-stop", f"{name}: no stop() after the last set() (seq {sets[-1].seq})", dev=name))
            kicks = [e for e in calls if e.d["method"] == "kickoff" and ok(e)]
            if kicks:
                coll = [
                    e
                    for e in calls
                    if e.d["method"] in ("collect", "collect_pages", "describe_collect", "collect_asset_docs") and e.seq > kicks[-1].seq
                ]
                if not coll:
                    out.append(V("kickoff-without-collect", f"{name}: no collection attempt after the last kickoff()", dev=name))
        # (d) subscriptions left by the engine
        end = inv.calls[-1].end
        for d, subs in (end.d.get("subs") or {}).items():
            if "RE.monitor" in subs:
                subscribed = [e.seq for e in per.get(d, []) if e.d["method"] == "subscribe" and e.d.get("cb") == "RE.monitor" and e.d.get("fault") != "raise"]
                since = subscribed[-1] if subscribed else -1  # the subscription that is still there
                attempts = [e for e in per.get(d, []) if e.d["method"] == "clear_sub" and e.d.get("cb") == "RE.monitor" and e.seq > since]
                if d in refused or (len(attempts) >= 2 and all(e.d.get("fault") == "raise" for e in attempts)):
                    # the device refused every attempt (at least two: the engine retried) to remove the
                    # subscription: nothing more the engine can do; its callback ignores later updates (C01).
                    # The dead entry stays in the device's table for the following calls too.
                    refused.add(d)
                    res.sim.probe("device-refused-every-clear_sub")
                    continue
                out.append(V("monitor-subscription-left", f"{d} still has an engine monitor callback at idle", dev=d))
    # (e) per-call subscribers get nothing from the following call
    user_calls = [c for c in v.calls if c.api == "call"]
    steps = [s for s in res.case["script"] if s["do"] == "call"]
    temp = set()
    main_at = next((i for i, s in enumerate(steps) if s.get("main")), 0)  # calls before it (a prelude) have no per-call subscribers
    for idx, inv in enumerate(v.invocations):
        if idx <= main_at:
            continue
        if v.invocations[idx - 1].final_state != "idle":
            continue
        for e in inv.events:
            if e.kind == "cb" and e.d["cid"] in ("cbT", "cbP"):
                out.append(V("per-call-subscription-leaked", f"callback {e.d['cid']} received a {e.d['name']} of the following call", cid=e.d["cid"]))
                break
    return out
