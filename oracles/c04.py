"""C04 - Resuming replays exactly the work done since the last checkpoint.

Reference model run alongside the message trace (identity of Msg objects = `mid`):
  cache := []   at 'checkpoint' and at every implicit checkpoint named in the statement
                (stage, unstage, monitor, unmonitor, subscribe, unsubscribe, a toggle of rewindability,
                close_run); also when a device's pause() raises NoReplayAllowed
  cache := None at 'clear_checkpoint' (sticky for the rest of the call: the plan is un-resuming)
  a message is appended when it is handed to the engine unless its command is non-replayable or
  rewindability is off.
At each rewind (RE.resume(), or a '_start_suspender' message) the model's cache becomes a pending
replay segment.  Every later message must be
  * the next message of the innermost pending segment (identical object, original order), or
  * a suspender-helper message (between '_start_suspender' and the helper's closing 'rewindable'), or
  * a message object never seen before.
Anything else is an unexpected replay; a pending segment that is skipped is a lost replay.
A message that the interruption cancelled while it was being executed is not "work done": it leaves the
cache and is executed once more, on behalf of whoever yielded it, after everything the interruption pushed
has run (modelled as a one-message 'redo' segment placed directly above its yielder).
"""

from sim import gen
from sim.dsl import msg
from sim.runner import run_case

from . import generic
from .common import V, View, monitor_lost_in_flight

ID = "C04"
TITLE = "Resuming replays exactly the work done since the last checkpoint"
QUICK = {"batches": 220, "wall": 50.0}
THOROUGH = {"batches": 6000, "wall": 900.0}

UNCACHEABLE = {
    "pause",
    "subscribe",
    "unsubscribe",
    "stage",
    "unstage",
    "monitor",
    "unmonitor",
    "open_run",
    "close_run",
    "install_suspender",
    "remove_suspender",
    "_start_suspender",
}
IMPLICIT = {"checkpoint", "stage", "unstage", "monitor", "unmonitor", "subscribe", "unsubscribe", "close_run"}

valid_case = generic.valid_case


def replay_mix(pg):
    """A plan mixing explicit and implicit checkpoints, rewindable regions and run boundaries."""
    rng, S = pg.rng, pg.S
    body = [msg(S, "open_run")]
    open_ = True
    monitored = None
    tokens = 0
    staged = []
    flying = False
    for _ in range(rng.choice([3, 4, 5, 6])):
        kind = rng.choice(["point", "point", "nulls", "monitor", "subscribe", "stage", "rewindable", "boundary", "checkpoint", "set"] + (["fly"] if pg.flyers else []))
        if kind == "point" and open_:
            body.extend(pg.point(checkpoint=0.5, move=0.3, devices=pg.dets[:1]))
        elif kind == "nulls":
            for _ in range(rng.choice([1, 2, 3])):
                body.append(msg(S, rng.choice(["null", "null", "sleep"]), None, *([rng.choice([0.0, 0.2])] if body and False else [])))
                if body[-1]["cmd"] == "sleep":
                    body[-1]["args"] = [rng.choice([0.0, 0.2])]
        elif kind == "monitor" and open_ and pg.signals:
            if monitored is None:
                monitored = "sig1"
                body.append(msg(S, "monitor", monitored, name="sig1_monitor"))
            else:
                body.append(msg(S, "unmonitor", monitored))
                monitored = None
        elif kind == "subscribe":
            tokens += 1
            body.append(msg(S, "subscribe", None, {"cb": "cbP"}, "all", save=f"tok{tokens}"))
            body.append(msg(S, "null"))
            if rng.random() < 0.6:
                body.append(msg(S, "unsubscribe", None, {"var": f"tok{tokens}"}))
        elif kind == "stage":
            cands = [d for d in pg.dets + pg.motors if d not in staged]
            if cands and rng.random() < 0.6:
                d = rng.choice(cands)
                staged.append(d)
                body.append(msg(S, "stage", d))
            elif staged:
                body.append(msg(S, "unstage", staged.pop()))
        elif kind == "rewindable":
            body.append(msg(S, "rewindable", None, False))
            for _ in range(rng.choice([1, 2])):
                body.append(msg(S, "null"))
            if pg.motors and rng.random() < 0.5:
                g = pg.group()
                body += [msg(S, "set", pg.motors[0], rng.choice([1.0, 2.0]), group=g), msg(S, "wait", None, group=g)]
            body.append(msg(S, "rewindable", None, True))
        elif kind == "boundary" and open_ and not flying:
            if monitored is not None:
                monitored = None  # close_run removes the monitor
            body.append(msg(S, "close_run"))
            if rng.random() < 0.4:
                body.append(msg(S, "checkpoint"))
            body.append(msg(S, "null"))
            body.append(msg(S, "open_run"))
        elif kind == "fly" and open_:
            # kickoff / complete carry a group the following wait relies on - also when they are executed again
            g = pg.group()
            if not flying:
                body += [msg(S, "kickoff", pg.flyers[0], group=g), msg(S, "wait", None, group=g)]
            else:
                body += [msg(S, "complete", pg.flyers[0], group=g), msg(S, "wait", None, group=g), msg(S, "collect", pg.flyers[0])]
            flying = not flying
        elif kind == "checkpoint":
            body.append(msg(S, "checkpoint"))
            if rng.random() < 0.3:
                # the plan's own 'wait_for' (also what the suspension helper uses): replayable like any other message
                body += [msg(S, "null"), msg(S, "wait_for", None, [{"sleepfn": rng.choice([0.0, 0.1])}]), msg(S, "null")]
        elif kind == "set" and pg.motors:
            g = pg.group()
            body += [msg(S, "set", pg.motors[0], rng.choice([1.0, 2.0, -1.0]), group=g), msg(S, "wait", None, group=g)]
    if flying:
        g = pg.group()
        body += [msg(S, "complete", pg.flyers[0], group=g), msg(S, "wait", None, group=g), msg(S, "collect", pg.flyers[0])]
    if rng.random() < 0.12:
        # a checkpoint *after* clear_checkpoint.  The engine (and its documentation) keep the plan non-resumable for the
        # rest of the call; the statement of C10 reads as if the checkpoint re-armed it.  Either way: if a resume
        # happens after it, nothing from before that checkpoint may be executed again (the model treats resumability
        # as unknown from there on and only checks what a resume replays)
        body.append(msg(S, "clear_checkpoint"))
        body.append(msg(S, "null"))
        if pg.motors:
            g = pg.group()
            body += [msg(S, "set", pg.motors[0], rng.choice([1.0, 2.0]), group=g), msg(S, "wait", None, group=g)]
        body.append(msg(S, "checkpoint"))
        for _ in range(rng.choice([1, 2, 3])):
            body.append(msg(S, rng.choice(["null", "null", "sleep"]), None))
            if body[-1]["cmd"] == "sleep":
                body[-1]["args"] = [0.2]
        if rng.random() < 0.5:
            body.append(msg(S, "checkpoint"))
            body.append(msg(S, "null"))
    if open_:
        body.append(msg(S, "close_run"))
    for d in reversed(staged):
        body.append(msg(S, "unstage", d))
    return body


def cases(seed, tier):
    rng = gen.rng_for(ID, seed)
    specs = gen.gen_world(rng, flyers=rng.choice([0, 1]), p_async=0.3, pausable=0.4)
    specs["sigS"] = {"kind": "signal", "initial": 0}
    pg = gen.PlanGen(rng, specs)
    body = replay_mix(pg)
    case = {
        "prop": ID,
        "seed": seed,
        "sim": {"handle_cost": rng.choice([0.0, 0.0, 1e-4])},
        "re": {"record_interruptions": rng.random() < 0.2},
        "devices": specs,
        "callbacks": {"cbP": {}},
        "suspenders": {},
        "script": [],
    }
    if rng.random() < 0.6:
        sus = {"cls": "SuspendBoolHigh", "signal": "sigS", "kwargs": {"sleep": rng.choice([0, 0.5])}}
        if rng.random() < 0.4:
            sus["pre_plan"] = [{"op": "msg", "cmd": "null", "site": "pre"}]
            sus["pre_plan_form"] = rng.choice(["list", "fn"])
        if rng.random() < 0.4:
            sus["post_plan"] = [{"op": "msg", "cmd": "null", "site": "post"}, {"op": "msg", "cmd": "sleep", "args": [0.1], "site": "post2"}]
            sus["post_plan_form"] = rng.choice(["list", "fn"])
        case["suspenders"]["s0"] = sus
        case["script"].append({"do": "install_suspender", "sus": "s0"})
    if rng.random() < 0.2:
        # an earlier call on the same engine that ended with its checkpoint cleared: the next call starts afresh
        S = pg.S
        case["script"].append({"do": "call", "plan": [msg(S, "checkpoint"), msg(S, "null"), msg(S, "clear_checkpoint"), msg(S, "null")], "tag": "prelude"})
    case["script"].append({"do": "call", "plan": body, "main": True})
    retarget = generic.second_suspender(case, ID, seed)
    dry, dv, n = generic.dry_run(case)
    yield case
    ci = generic.main_index(case)
    kinds = ["pause", "pause"] + (["trip", "trip"] if case["suspenders"] else [])
    K = 12 if tier == "quick" else 24
    # NoReplayAllowed from a Pausable device in some variants
    pausables = [n_ for n_, s in specs.items() if s["kind"] in ("pmotor", "pdet")]
    for j in range(K):
        c = gen.copy.deepcopy(case)
        c["variant"] = j
        inj = gen.gen_injections(rng, n, kinds=kinds, k=rng.choice([1, 1, 2]), slack=2)
        for i in inj:
            if i["do"] == "trip":
                i["args"] = retarget(generic.trip_args(rng))
        c["script"][ci]["inject"] = inj
        decs = []
        for _ in range(4):
            d = {"do": "resume"}
            if rng.random() < 0.4:
                d["inject"] = gen.gen_injections(rng, n, kinds=kinds, k=1, slack=2)
                for i in d["inject"]:
                    if i["do"] == "trip":
                        i["args"] = retarget(generic.trip_args(rng))
            decs.append(d)
        c["script"][ci]["decisions"] = decs
        if pausables and rng.random() < 0.25:
            p = rng.choice(pausables)
            c["devices"][p].setdefault("faults", {})[f"pause#{rng.choice([0, 0, 1])}"] = {"kind": "raise", "exc": "NoReplayAllowed"}
        elif pausables and rng.random() < 0.25:
            # a Pausable device whose resume() fails once: RE.resume() raises, the engine stays paused, and the next
            # RE.resume() still replays everything since the checkpoint
            p = rng.choice(pausables)
            c["devices"][p].setdefault("faults", {})[f"resume#{rng.choice([0, 0, 1])}"] = {"kind": "raise", "exc": "RuntimeError"}
        yield c


def model_check(events):
    """events: Ev list of one invocation, in order.  Returns violations."""
    out = []
    cache = []  # list of mids, or None
    rewindable = True
    pending = []  # stack of lists of mids still to be replayed
    helpers = []  # stack of {"segment": [...], "phase": "pre"|"post", "msgs": int}
    seen = set()
    src = {}  # mid -> the pending segment it was last taken from (None: yielded by the plan itself)
    ordinary = set()  # mids currently handed over as ordinary (non-helper) messages
    notes = {"segments": 0, "replayed": 0, "redone": 0, "helper_msgs": 0}

    def reset():
        nonlocal cache
        if cache is not None:
            cache = []

    contents = {}  # mid -> (cmd, obj, args, kwargs, run) as first handed to the engine
    asked = None  # an interruption was accepted while, by the model, a checkpoint existed (the plan is resumable)
    uncertain = False  # a checkpoint followed clear_checkpoint: resumability is left open, replays are still checked
    for e in events:
        # ---- there is something to resume from exactly when the model says so: an interruption accepted in a
        # resumable section pauses / suspends, it does not abort the plan ("No checkpoint")
        if e.kind == "inject_begin" and e.d["do"] in ("pause", "trip") and e.d.get("state") == "running":
            if cache is not None and asked is None and not uncertain:
                asked = e.d["do"]
            continue
        if e.kind == "inject_end" and e.d["do"] in ("pause", "trip"):
            if e.d["outcome"] != "ok":
                asked = None  # the request was refused
            continue
        if e.kind == "call_begin" and e.d["api"] in ("abort", "stop", "halt"):
            asked = None  # the user's own decision ends the plan
        if e.kind == "state":
            if e.d["new"] in ("paused", "suspending", "idle") or e.d["old"] == "suspending":
                asked = None
            elif e.d["new"] == "aborting" and asked is not None:
                out.append(V("interruption-in-resumable-section-aborted", f"a {asked} request was accepted after a checkpoint (nothing cleared it since) but the engine aborted the plan instead of holding it", kind=asked))
                asked = None
            continue
        if e.kind == "call_begin" and e.d["api"] == "resume":
            seg = list(cache or [])
            if cache is not None:
                cache = []
            if seg:
                pending.append({"ids": seg, "kind": "replay"})
                notes["segments"] += 1
            continue
        if e.kind == "dev" and e.d["method"] == "pause" and e.d.get("fexc") == "NoReplayAllowed" and e.d.get("fault") == "raise":
            # the device refuses replay: everything since the checkpoint is forgotten
            # (inside '_start_suspender' the devices are paused *before* the cache is turned into the
            # helper's replay segment; once that command has completed the segment is fixed)
            if helpers and helpers[-1]["phase"] == "pre" and not helpers[-1].get("started"):
                helpers[-1]["segment"] = []
            reset()
            # ... the message that was interrupted in flight included
            pending[:] = [s for s in pending if s["kind"] != "redo"]
            continue
        if e.kind == "cmd" and e.d["cmd"] == "_start_suspender" and helpers:
            if e.d["end"] == "ok":
                helpers[-1]["started"] = True
            else:
                # cancelled or failed before the helper plan was installed: the suspension is dropped
                h = helpers.pop()
                if e.d["end"] == "cancelled" and cache is not None and not cache:
                    cache = list(h["segment"])
            continue
        if e.kind == "cmd" and e.d["mid"] in ordinary:
            m_ = e.d["mid"]
            if e.d["cmd"] == "monitor" and e.d["end"] == "ok":
                reset()
            elif e.d["end"] == "error":
                # the message failed and the plan was told so: it is not work done, a rewind does not repeat it
                if cache and cache[-1] == m_:
                    cache.pop()
            elif e.d["end"] == "cancelled" and e.d.get("state") in ("pausing", "suspending"):
                # interrupted in flight: it leaves the cache and is executed again, on behalf of the plan (or
                # replay) that yielded it, once everything pushed by the interruption has run
                if cache and cache[-1] == m_:
                    cache.pop()
                redo = {"ids": [m_], "kind": "redo"}
                s = src.get(m_)
                if s is not None and any(s is x for x in pending):
                    pending.insert([i for i, x in enumerate(pending) if x is s][0] + 1, redo)
                else:
                    pending.insert(0, redo)
                ordinary.discard(m_)
            continue
        if e.kind != "msg":
            continue
        mid, cmd = e.d["mid"], e.d["cmd"]
        # a message that is executed again is the same message: same object (mid) and still the same contents
        sig_ = (cmd, e.d["obj"], repr(e.d["args"]), repr(sorted(e.d["kw"].items())), e.d["run"])
        first_sig = contents.setdefault(mid, sig_)
        if first_sig != sig_ and cmd not in ("_start_suspender",):
            out.append(V("replayed-message-was-altered", f"message #{mid} ({cmd}) came back with different contents: first {first_sig[2:4]}, now {sig_[2:4]}", cmd=cmd, mid=mid))
            contents[mid] = sig_
        if cmd == "_start_suspender":
            helpers.append({"segment": list(cache or []), "phase": "pre", "msgs": 0})
            if cache is not None:
                cache = []
            continue
        if helpers:
            h = helpers[-1]
            h["msgs"] += 1
            notes["helper_msgs"] += 1
            if cmd == "_resume_from_suspender":
                h["phase"] = "post"
                continue
            if cmd == "rewindable":
                flag = e.d["args"][0] if e.d["args"] else None
                if flag is not None:
                    if bool(flag) != rewindable and cache is not None:
                        cache = []
                    rewindable = bool(flag)
                if h["phase"] == "post":
                    helpers.pop()
                    if h["segment"]:
                        pending.append({"ids": list(h["segment"]), "kind": "replay"})
                        notes["segments"] += 1
                continue
            # any other helper message (pre/post plan, wait_for): not cached (rewindability is off)
            continue
        # ---- an ordinary message
        while pending and not pending[-1]["ids"]:
            pending.pop()
        src[mid] = None
        if pending:
            top = pending[-1]
            want = top["ids"][0]
            if mid == want:
                top["ids"].pop(0)
                src[mid] = top
                notes["replayed" if top["kind"] == "replay" else "redone"] += 1
            elif mid in seen:
                out.append(V("replay-out-of-order", f"expected replay of message #{want}, got #{mid} ({cmd})", want=want, got=mid, cmd=cmd))
                # resynchronise
                if mid in top["ids"]:
                    del top["ids"][: top["ids"].index(mid) + 1]
            else:
                out.append(V("replay-lost", f"message #{mid} ({cmd}) is new but {len(top['ids'])} cached message(s) were still to be replayed (next #{want})", cmd=cmd, want=want))
                pending.pop()
        else:
            if mid in seen:
                out.append(V("unexpected-replay", f"message #{mid} ({cmd}) was executed again although it is not in the replay cache", cmd=cmd, mid=mid))
        seen.add(mid)
        ordinary.add(mid)
        if cache is not None and rewindable and cmd not in UNCACHEABLE:
            cache.append(mid)
        if cmd == "checkpoint" and cache is None:
            # an explicit checkpoint after clear_checkpoint: whether it re-arms the plan is left open (see replay_mix);
            # if a resume follows, it may replay only what comes after this checkpoint
            cache = []
            uncertain = True
        elif cmd in IMPLICIT and cmd != "monitor":  # ('monitor' really awaits: its checkpoint happens on completion)
            reset()
        elif cmd == "clear_checkpoint":
            cache = None
            uncertain = False
            asked = None  # a request still on its way to the loop may legitimately meet the cleared checkpoint
        elif cmd == "rewindable":
            flag = e.d["args"][0] if e.d["args"] else None
            if flag is not None:
                if bool(flag) != rewindable:
                    reset()
                rewindable = bool(flag)
    return out, notes


def check(res):
    out = []
    v = View(res)
    res.notes = {}
    if res.aborted:
        return out
    for inv in v.invocations:
        viols, notes = model_check(inv.events)
        for k, n in notes.items():
            res.notes[k] = res.notes.get(k, 0) + n
        out.extend(viols)
    return out


def nontrivial(res):
    return bool(getattr(res, "notes", {}).get("segments"))


KNOWN_PREDICATES = {
    # D8: the implicit checkpoint of a 'monitor' that was cancelled in flight never happened
    "monitor_lost_in_flight": lambda v, res: v["cls"] in ("unexpected-replay", "replay-lost") and monitor_lost_in_flight(res),
}
