"""C24 - Relative moves are offsets from the start and are undone at the end.

Workload: rel_set, mvr, relative_set_wrapper, reset_positions_wrapper and the rel_* scans (rel_scan,
rel_list_scan, rel_grid_scan, rel_adaptive_scan) over motors with generated initial positions and
velocities (motion takes virtual time; stop() freezes a motor part-way).  Faults: a device operation fails
at an arbitrary step; stop / abort at arbitrary handles; a pause while a motor is mid-move followed by a
resume.
Oracle on the device ledger: every set() target equals that motor's position *when the relative machinery
first touched it* plus the requested offset (for the scans: the offsets are the documented trajectory); and
whenever the call ends with cleanup (success, failure, stop, abort -- not halt) the last set() of every
moved motor is its initial position.
"""

import copy

from sim import gen
from sim.dsl import msg

from . import generic, grammar
from .common import V, View

ID = "C24"
TITLE = "Relative moves are offsets from the start and are undone at the end"
QUICK = {"batches": 200, "wall": 50.0}
THOROUGH = {"batches": 6000, "wall": 900.0}
SHRINK_PLAN = False


def linspace(a, b, n):
    if n == 1:
        return [a]
    return [a + (b - a) * i / (n - 1) for i in range(n)]


def cases(seed, tier):
    rng = gen.rng_for(ID, seed)
    specs = gen.gen_world(rng, motors=2, dets=1, flyers=0, p_async=0.15, pausable=0.0)
    for m in ("m1", "m2"):
        specs[m]["initial"] = rng.choice([0.0, 1.5, -2.25, 10.0])
        specs[m]["velocity"] = rng.choice([1.0, 5.0, 0.5])
    pg = gen.PlanGen(rng, specs)
    S = pg.S
    D = {"devs": ["d1"]}
    kind = rng.choice(["rel_scan", "rel_list_scan", "rel_grid_scan", "mvr", "rel_set", "wrapper", "rel_scan", "wrapper", "rel_adaptive_scan"])
    offsets = {}  # motor -> list of expected offsets (in order) or None if order-free set
    n = rng.choice([2, 3, 4])
    a, b = rng.choice([(-1.0, 1.0), (0.0, 2.0), (1.0, -1.0), (0.5, 0.5)])
    if kind == "rel_scan":
        body = [{"op": "plan", "name": "rel_scan", "args": [D, {"dev": "m1"}, a, b, n]}]
        offsets["m1"] = linspace(a, b, n)
        resets = True
    elif kind == "rel_list_scan":
        pts = [rng.choice([0.5, -1.0, 2.0, 0.0]) for _ in range(n)]
        body = [{"op": "plan", "name": "rel_list_scan", "args": [D, {"dev": "m1"}, pts]}]
        offsets["m1"] = pts
        resets = True
    elif kind == "rel_grid_scan":
        n2 = rng.choice([2, 3])
        body = [{"op": "plan", "name": "rel_grid_scan", "args": [D, {"dev": "m1"}, a, b, 2, {"dev": "m2"}, 0.0, 1.0, n2], "kw": {"snake_axes": False}}]
        offsets["m1"] = set(linspace(a, b, 2))
        offsets["m2"] = set(linspace(0.0, 1.0, n2))
        resets = True
    elif kind == "rel_adaptive_scan":
        body = [{"op": "plan", "name": "rel_adaptive_scan", "args": [D, "d1", {"dev": "m1"}, 0.0, 2.0, 0.2, 1.0, 1.0, False]}]
        offsets["m1"] = "range:0.0:2.0"
        resets = True
    elif kind == "mvr":
        off = rng.choice([1.0, -0.5, 2.0])
        off2 = rng.choice([1.0, -1.5])
        body = [{"op": "stub", "name": "mvr", "args": [{"dev": "m1"}, off, {"dev": "m2"}, off2]}]
        offsets["m1"] = [off]
        offsets["m2"] = [off2]
        resets = False
    elif kind == "rel_set":
        off = rng.choice([1.0, -0.5, 2.0])
        body = [{"op": "stub", "name": "rel_set", "args": [{"dev": "m1"}, off], "kw": {"wait": True}}]
        offsets["m1"] = [off]
        resets = False
    else:
        offs = [rng.choice([1.0, -0.5, 2.0, 0.0]) for _ in range(n)]
        inner = []
        for o in offs:
            g = pg.group()
            inner += [msg(S, "checkpoint"), msg(S, "set", "m1", o, group=g), msg(S, "wait", None, group=g), msg(S, "null")]
        w = {"op": "wrap", "name": "relative_set_wrapper", "args": [[{"dev": "m1"}]] if rng.random() < 0.5 else [], "body": inner}
        resets = rng.random() < 0.6
        if resets:
            w = {"op": "wrap", "name": "reset_positions_wrapper", "args": [], "body": [w]}
        body = [w]
        offsets["m1"] = offs
    case = {
        "prop": ID,
        "seed": seed,
        "sim": {"handle_cost": rng.choice([0.0, 1e-4])},
        "re": {},
        "devices": specs,
        "expect": {"offsets": {k: (sorted(v) if isinstance(v, set) else v) for k, v in offsets.items()}, "sets": [k for k, v in offsets.items() if isinstance(v, set)], "resets": resets, "kind": kind},
        "script": [{"do": "call", "plan": body, "main": True}],
    }
    dry = generic.run_case(case)
    dv = View(dry)
    if dry.aborted or dv.calls[0].outcome != "return":
        raise RuntimeError(f"generator contract broken: C24 base did not complete: {dv.calls[0].end.d if dv.calls else None}")
    nsteps = dv.calls[0].end.d["steps"]
    yield case
    K = 12 if tier == "quick" else 24
    for j in range(K):
        c = grammar.schedule(rng, case, dv, nsteps)
        c["variant"] = j
        yield c
    # faults placed inside the operation that creates in-flight state: a pause (then resume) landing while the
    # initial position is being read ('locate' / 'read' of the motor awaiting an asynchronous device)
    probes = [e.d["n"] for e in dv.of("msg") if e.d["cmd"] in ("locate", "read") and e.d["obj"] in exp_motors(case)]
    for j, n_ in enumerate(probes[:3]):
        c = copy.deepcopy(case)
        c["variant"] = f"locate{j}"
        for m in exp_motors(case):
            c["devices"][m].setdefault("async", {})
            c["devices"][m]["async"]["locate"] = 0.05
            c["devices"][m]["async"]["read"] = 0.05
        c["script"][0]["inject"] = [{"id": "pl", "at": {"msg": n_, "plus": rng.choice([0, 1, 2])}, "do": "pause"}]
        c["script"][0]["decisions"] = [{"do": "resume"}]
        yield c
    # the move of one motor fails and the plan's reaction to the error begins with the first move of the *other*
    # motor: that move is relative to where that motor stands like any other, and the motor is put back at the end
    for j in range(2):
        off1, off2 = rng.choice([1.0, -0.5, 2.0]), rng.choice([1.5, -2.0, 0.75])
        g1, g2 = pg.group(), pg.group()
        handler = [msg(S, "set", "m2", off2, group=g2), msg(S, "wait", None, group=g2), msg(S, "null")]
        first = [msg(S, "checkpoint"), msg(S, "set", "m1", off1, group=g1), msg(S, "wait", None, group=g1), msg(S, "null")]
        if j == 0:
            inner = [{"op": "try", "site": S(), "body": first, "handlers": [{"exc": "FailedStatus", "body": handler, "reraise": False}]}]
        else:
            inner = [{"op": "try", "site": S(), "body": first, "finally": handler}]
        w = {"op": "wrap", "name": "relative_set_wrapper", "args": [], "body": inner}
        resets = rng.random() < 0.7
        if resets:
            w = {"op": "wrap", "name": "reset_positions_wrapper", "args": [], "body": [w]}
        c = copy.deepcopy(case)
        c["variant"] = f"first-move-inside-the-error-handler-{j}"
        c["script"] = [{"do": "call", "plan": [w], "main": True}]
        for m in ("m1", "m2"):
            c["devices"][m].pop("faults", None)
        c["devices"]["m1"]["faults"] = {"set#0": {"kind": "status_fail", "exc": "RuntimeError", "delay": rng.choice([0.0, 0.1])}}
        c["expect"] = {"offsets": {"m1": [off1], "m2": [off2]}, "sets": [], "resets": resets, "kind": "wrapper"}
        yield c
    # a history on one engine and one device: a relative move that failed in an earlier call, the motor repositioned
    # by other means, then a relative plan - its offsets count from where the motor stands *now*
    for j in range(2):
        S2 = pg.S
        off1 = rng.choice([1.0, -0.5, 2.0])
        X = rng.choice([4.0, -3.0, 7.5])
        third = rng.choice(["mvr", "rel_set", "rel_scan", "rel_list_scan"])
        if third == "mvr":
            off = rng.choice([1.0, -1.5])
            plan3 = [{"op": "stub", "name": "mvr", "args": [{"dev": "m1"}, off]}]
            offs, resets = [off], False
        elif third == "rel_set":
            off = rng.choice([0.5, 2.0])
            plan3 = [{"op": "stub", "name": "rel_set", "args": [{"dev": "m1"}, off], "kw": {"wait": True}}]
            offs, resets = [off], False
        elif third == "rel_scan":
            plan3 = [{"op": "plan", "name": "rel_scan", "args": [D, {"dev": "m1"}, -1.0, 1.0, 3]}]
            offs, resets = linspace(-1.0, 1.0, 3), True
        else:
            pts = [0.5, -1.0]
            plan3 = [{"op": "plan", "name": "rel_list_scan", "args": [D, {"dev": "m1"}, pts]}]
            offs, resets = pts, True
        first = rng.choice(["mvr", "rel_set"])
        plan1 = [{"op": "stub", "name": first, "args": [{"dev": "m1"}, off1], **({"kw": {"wait": True}} if first == "rel_set" else {})}]
        c = copy.deepcopy(case)
        c["variant"] = f"history-{j}"
        c["devices"]["m1"].pop("faults", None)
        c["devices"]["m1"]["faults"] = {"set#0": {"kind": rng.choice(["raise", "status_fail"]), "exc": "RuntimeError", "delay": 0.0}}
        c["script"] = [
            {"do": "call", "plan": plan1, "tag": "failed-relative-move"},
            {"do": "call", "plan": [{"op": "stub", "name": "mv", "args": [{"dev": "m1"}, X]}], "tag": "reposition"},
            {"do": "call", "plan": plan3, "main": True},
        ]
        c["expect"] = {"offsets": {"m1": offs}, "sets": [], "resets": resets, "kind": third, "history": {"call": 2, "initial": {"m1": X}}}
        yield c


def exp_motors(case):
    return list(case["expect"]["offsets"])


def close(a, b):
    return abs(a - b) < 1e-9


def check(res):
    out = []
    v = View(res)
    res.notes = {}
    if res.aborted:
        return out
    case = res.case
    exp = case["expect"]
    hist = exp.get("history")  # {"call": index of the call under test, "initial": {motor: where it stood when that call began}}
    if hist and len(v.invocations) <= hist["call"]:
        return out
    inv = v.invocations[hist["call"]] if hist else v.invocations[0]

    def init_of(motor):
        return hist["initial"][motor] if hist else case["devices"][motor]["initial"]

    evs = inv.events
    last = inv.calls[-1]
    if last.end is None or last.state != "idle":
        return out
    halted = any(c.accepted("halt") for c in inv.calls) or any(c.api == "halt" for c in inv.calls) or any(e.kind == "plan" and e.d["what"] == "closed" for e in evs)
    # a stop/abort (or a second failure) that strikes while the reset itself is running interrupts it: the
    # statement is about how the *plan* ends, so that compound case is counted, not asserted
    term = next((e.seq for e in evs if e.kind == "state" and e.d["new"] in ("stopping", "aborting")), None)
    for motor in exp["offsets"]:
        ini = init_of(motor)
        if any(e.kind == "dev" and e.d["dev"] == motor and e.d["method"] == "set" and e.d.get("fault") and close(e.d["value"], ini) for e in evs):
            res.notes["fault_in_the_reset_move_itself"] = 1
            halted = True
    # likewise a device failure delivered while the reset is already under way (e.g. a pause during the reset's
    # wait, then the replayed earlier move fails): the exception is thrown into the reset plan itself
    for f in [e for e in evs if e.kind == "dev" and e.d.get("fault")]:
        for motor in exp["offsets"]:
            ini = init_of(motor)
            msets = [e for e in evs if e.kind == "dev" and e.d["dev"] == motor and e.d["method"] == "set" and e.seq < f.seq]
            if len(msets) > 1 and any(close(e.d["value"], ini) for e in msets[1:]):
                res.notes["failure_during_reset"] = 1
                halted = True
    if term is not None:
        for motor in exp["offsets"]:
            ini = init_of(motor)
            msets = [e for e in evs if e.kind == "dev" and e.d["dev"] == motor and e.d["method"] == "set"]
            if msets and close(msets[-1].d["value"], ini) and msets[-1].seq < term and len(msets) > 1:
                res.notes["terminated_during_reset"] = 1
                halted = True
    for motor, offs in exp["offsets"].items():
        initial = init_of(motor)
        sets = [e for e in evs if e.kind == "dev" and e.d["dev"] == motor and e.d["method"] == "set"]
        if not sets:
            continue
        # the position when the relative machinery first touched the motor is its initial position (nothing
        # else moves it); every target must be initial + one of the requested offsets, or initial itself (reset)
        targets = [e.d["value"] for e in sets]
        res.notes["sets_checked"] = res.notes.get("sets_checked", 0) + len(targets)
        if isinstance(offs, str) and offs.startswith("range:"):
            lo, hi = [float(x) for x in offs.split(":")[1:]]
            bad = [t for t in targets if not (initial + min(lo, hi) - 1e-9 <= t <= initial + max(lo, hi) + 1e-9)]
            if bad:
                out.append(V("relative-target-out-of-range", f"{motor}: targets {bad[:3]} outside initial({initial}) + [{lo}, {hi}]", motor=motor))
        else:
            allowed = [initial + o for o in offs] + [initial]
            bad = [t for t in targets if not any(close(t, a) for a in allowed)]
            if bad:
                out.append(
                    V(
                        "relative-target-wrong",
                        f"{motor}: set({bad[0]}) is not initial({initial}) + one of the offsets {offs} (targets {targets})",
                        motor=motor,
                    )
                )
            elif motor not in exp["sets"] and not any(e.kind == "call_begin" and e.d["api"] == "resume" for e in evs) and not any(e.kind == "dev" and e.d.get("fault") for e in evs) and not any(c.injections for c in inv.calls):
                # uninterrupted: the exact documented sequence, then (if it resets) back to the start
                pts = [initial + o for o in offs]
                if exp["kind"] != "wrapper":
                    # the step plans do not re-issue a set for a motor that does not change between two points
                    pts = [p for i, p in enumerate(pts) if i == 0 or not close(p, pts[i - 1])]
                want = pts + ([initial] if exp["resets"] else [])
                targets = [float(t) for t in targets]
                if len(targets) != len(want) or not all(close(a, b) for a, b in zip(targets, want)):
                    out.append(V("relative-trajectory", f"{motor}: targets {targets}, documented {want}", motor=motor))
        if exp["resets"] and not halted:
            if not close(targets[-1], initial):
                out.append(
                    V(
                        "not-returned-to-initial-position",
                        f"{motor}: the call ended ({last.outcome}/{last.exc}) but its last set() was {targets[-1]}, initial position {initial}",
                        motor=motor,
                    )
                )
    return out
