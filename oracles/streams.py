"""Shared workload for the numbering / monitor / interruption-record properties (C05 C40 C41):
a generated plan with a monitored signal, optional flyer, record_interruptions, several pauses /
suspensions with checkpoints in between, and signal updates delivered by the simulated control-system
thread at arbitrary handles (while running, while paused, while suspended, after unmonitor, at idle)."""

from __future__ import annotations

import copy

from sim import gen
from sim.dsl import msg

from . import generic


def stream_cases(pid, seed, tier, *, record=None, K=(12, 24), monitor=1.0, fly=0.4, kinds=None, read_faults=0.0):
    rng = gen.rng_for(pid, seed)
    specs = gen.gen_world(rng, flyers=1, p_async=0.25)
    specs["sigS"] = {"kind": "signal", "initial": 0}
    if rng.random() < 0.35:
        # a Pausable device whose pause() really awaits: pausing / starting a suspension then has an await point of
        # its own, inside which the next interruption can land
        d = rng.choice([n for n, s in specs.items() if s["kind"] in ("det", "pdet", "motor", "pmotor")])
        specs[d]["kind"] = "p" + specs[d]["kind"].lstrip("p")
        specs[d].setdefault("async", {})["pause"] = rng.choice([0.0, 0.05, 0.3])
    pg = gen.PlanGen(rng, specs)
    pg.nonrewind = rng.choice([0.0, 0.0, 0.4])  # some data points are taken with rewinding switched off
    pg.monitor_opts = 0.4  # some 'monitor' messages carry options for obj.subscribe()
    S = pg.S
    body = []
    nruns = rng.choice([1, 1, 2])
    for i in range(nruns):
        body.extend(pg.run_block(npoints=rng.choice([2, 3, 4]), monitor=monitor, fly=fly, sleep=0.5))
        if i + 1 < nruns:
            body.append(msg(S, "checkpoint"))
    body = pg.staged(body)
    case = {
        "prop": pid,
        "seed": seed,
        "sim": {"handle_cost": rng.choice([0.0, 0.0, 1e-4])},
        "re": {"record_interruptions": (rng.random() < 0.7) if record is None else record},
        "devices": specs,
        "suspenders": {"s0": {"cls": "SuspendBoolHigh", "signal": "sigS", "kwargs": {"sleep": rng.choice([0, 0.5])}}},
        "script": [{"do": "install_suspender", "sus": "s0"}, {"do": "call", "plan": body, "main": True}],
    }
    # a second suspender on a signal of its own in some worlds (suspensions on top of each other), drawn from a stream
    # of its own so that the rest of the case does not depend on it
    rng2 = gen.rng_for(pid, seed, "second-suspender")
    two = rng2.random() < 0.3
    if two:
        specs["sigT"] = {"kind": "signal", "initial": 0}
        case["suspenders"]["s1"] = {"cls": "SuspendBoolHigh", "signal": "sigT", "kwargs": {"sleep": rng2.choice([0, 0.5])}}
        case["script"].insert(1, {"do": "install_suspender", "sus": "s1"})
    case["script"].append({"do": "put", "signal": "sig1", "value": 99})  # an update at idle must reach nobody
    case["script"].append({"do": "call", "plan": [msg(S, "null")], "tag": "followup-null"})
    dry, dv, n = generic.dry_run(case)
    yield case
    ci = generic.main_index(case)
    kk = K[0] if tier == "quick" else K[1]
    kinds = kinds or ["pause", "pause", "trip", "put", "put", "put"]
    val = [100]

    def fill(inj):
        for i in inj:
            if i["do"] == "trip":
                i["args"] = generic.trip_args(rng)
                if two and rng2.random() < 0.5:
                    i["args"]["signal"] = "sigT"
                if two and rng2.random() < 0.2:
                    # the signal flaps (never twice in the same instant: one device thread delivers its updates in turn)
                    i["args"]["after"] = i["args"]["after"] or 0.05
                    i["args"]["then"] = [[rng2.choice([0.05, 0.1, 0.4, 1.0]), 1], [rng2.choice([0.05, 0.2, 1.0]), 0]]
            elif i["do"] == "put":
                val[0] += 1
                i["args"] = {"signal": "sig1", "value": val[0]}
        return inj

    for j in range(kk):
        c = copy.deepcopy(case)
        c["variant"] = j
        c["script"][ci]["inject"] = fill(gen.gen_injections(rng, n, kinds=kinds, k=rng.choice([2, 3, 4, 5]), slack=3))
        decs = []
        for _ in range(5):
            if rng.random() < 0.35:
                val[0] += 1
                decs.append({"do": "put", "signal": "sig1", "value": val[0]})  # update while paused
            if rng.random() < 0.12:
                # end the run while paused: whatever was emitted before the rewind must still be accounted for
                decs.append({"do": rng.choice(["abort", "stop"])})
                continue
            d = {"do": "resume"}
            if rng.random() < 0.6:
                d["inject"] = fill(gen.gen_injections(rng, n, kinds=kinds, k=rng.choice([1, 2, 3]), slack=3))
            decs.append(d)
        c["script"][ci]["decisions"] = decs
        c["script"][ci]["final"] = rng.choice(["resume", "resume", "abort", "stop"])
        if read_faults and rng.random() < read_faults:
            # the monitored signal cannot be read at one of its updates (the engine's monitor subscriber reads it):
            # that update yields no event - and uses up no seq_num
            c["devices"]["sig1"].setdefault("faults", {})[f"read#{rng.choice([1, 2, 3, 4])}"] = {"kind": "raise", "exc": "RuntimeError"}
        yield c
