"""C35 - Document normalization never alters its inputs and loses nothing; the conditional backup hands over
every document exactly once.

Part A (RunNormalizer): the real `RunNormalizer` is fed document streams emitted by the real RunEngine
executing generated plans on simulated detectors that produce *legacy* assets (Resource + Datum, with or
without a 'frame' datum kwarg, hdf5 and non-hdf5 specs), *current* assets (StreamResource + StreamDatum),
plain readings, data keys that use the reserved names, several streams - optionally interrupted
(pause/abort/stop) - and then subjected to the orderings a document consumer legitimately meets: Datum documents
delayed until after the Event that references them (any point before the RunStop), events packed into pages,
datums packed into datum pages.
Oracle: (1) no exception; (2) every emitted document validates against the event-model schema; (3) deep
snapshots of all inputs taken before each call equal the inputs after the call *and* at the end of the run
(cached references can be mutated later); (4) every internal value of every input event appears in the emitted
event of the same uid (reserved names renamed with a leading underscore); (5) every datum referenced by an
(unfilled) event is turned into exactly one stream datum whose uid is the datum id, with indices
[seq_num-1, seq_num) and seq_nums [seq_num, seq_num+1), preceded by exactly one stream resource of the uid it
names; (6) current-style stream resources/datums pass through one to one.

Part B (_ConditionalBackup): a primary scheduled to fail at its j-th document (once, or from then on) and 1-2
backups, one of which may fail at its k-th.  Oracle: before the first failure the backups receive nothing; from
the first failure on every healthy backup has received every document of the run so far exactly once and in
order (checked after every call), and they are the very documents that were passed in.
"""

import copy

from sim import gen
from sim.dsl import SiteCounter, msg
from sim.kernel import Sim
from sim.runner import Result
from sim.runner import run_case as re_run_case

from .common import V

ID = "C35"
MAX_WORKERS = {"quick": 6}  # importing tiled (dask, pandas, pyarrow) in 16 processes at once takes ~20 s
TITLE = "Document normalization never alters its inputs and loses nothing"
ENGINE = "re_sim"
QUICK = {"batches": 1200, "wall": 50.0}
THOROUGH = {"batches": 40000, "wall": 900.0}
COMPONENTS_REAL = [
    "bluesky.callbacks.tiled_writer.RunNormalizer (all document methods, emit + schema validation)",
    "bluesky.callbacks.tiled_writer._ConditionalBackup",
    "bluesky.RunEngine + RunBundler producing the document streams; event_model page packing/unpacking",
]
COMPONENTS_STUB = ["devices (sim/devices.py: AssetDetector, StreamDetector, Detector)", "event loop and clock (SimLoop)", "primary/backup writers of part B (recording fakes that fail on schedule)"]
RULE = (
    "one case = one generated plan on generated asset-writing detectors run by the real RunEngine (optionally interrupted), "
    "one document re-ordering/paging schedule, and one failure schedule for the conditional backup; non-trivial = the "
    "stream contains asset documents or the primary fails; distinct = distinct (document-kind sequence, failure schedule) digests"
)
ASSUMPTIONS = [
    "Resource documents precede their Datum documents (event-model guarantee); Datum documents may arrive after the Event "
    "that references them but before the RunStop",
    "one RunNormalizer / _ConditionalBackup instance per run, as TiledWriter's RunRouter factory creates them",
    "sampling, not proof",
]


def cases(seed, tier):
    rng = gen.rng_for(ID, seed)
    S = SiteCounter()
    devices = {}
    nad = rng.choice([1, 1, 2])
    for i in range(nad):
        devices[f"ad{i}"] = {
            "kind": "assetdet",
            "spec": rng.choice(["AD_HDF5_SWMR_SLICE", "AD_TIFF", "hdf5", "UNKNOWN_SPEC"]),
            "frame_kwarg": rng.random() < 0.3,
            "resource_per_point": rng.random() < 0.3,
            "resource_kwargs": rng.choice([{"path": "/entry/data", "frame_per_point": 1}, {"dataset": "/x"}, {}, {"template": "%s%s_%d.tiff", "filename": "f"}]),
            "trigger_delay": rng.choice([0.0, 0.01]),
        }
    devices["det0"] = {"kind": "det", "keys": rng.choice([["det0"], ["det0", "time"], ["seq_num", "det0"]]), "trigger_delay": 0.0}
    use_stream = rng.random() < 0.4
    if use_stream:
        devices["sd0"] = {"kind": "streamdet", "rate": 10.0, "frames": rng.choice([2, 5])}
    ads = [f"ad{i}" for i in range(nad)]
    body = [msg(S, "stage", d) for d in ads + ["det0"]]
    body.append(msg(S, "open_run"))
    if use_stream:
        body += [
            msg(S, "stage", "sd0"),
            msg(S, "declare_stream", None, {"dev": "sd0"}, name="sd0_stream", collect=True),
            msg(S, "kickoff", "sd0", group="k"),
            msg(S, "wait", None, group="k"),
        ]
    npts = rng.choice([1, 2, 3, 5])
    for p in range(npts):
        body.append(msg(S, "checkpoint"))
        if p and rng.random() < 0.35:
            # a device of the stream is re-configured between two readings: the stream gets a second descriptor,
            # the external detector's frames go on counting
            body.append(msg(S, "configure", "det0", exposure=float(p + 1)))
        devs = [d for d in ads if rng.random() < 0.85] or ads[:1]
        if rng.random() < 0.8:
            devs = devs + ["det0"]
        for d in devs:
            body.append(msg(S, "trigger", d, group=f"t{p}"))
        body.append(msg(S, "wait", None, group=f"t{p}"))
        body.append(msg(S, "create", None, name=rng.choice(["primary", "primary", "alt"])))
        for d in devs:
            body.append(msg(S, "read", d))
        body.append(msg(S, "save"))
    if use_stream:
        body += [msg(S, "complete", "sd0", group="c"), msg(S, "wait", None, group="c"), msg(S, "collect", "sd0"), msg(S, "unstage", "sd0")]
    body.append(msg(S, "close_run"))
    body += [msg(S, "unstage", d) for d in ads + ["det0"]]
    step = {"do": "call", "plan": body, "main": True}
    if rng.random() < 0.25:
        step["inject"] = [{"at": {"step": rng.randrange(5, 60)}, "do": "pause"}]
        step["decisions"] = [{"do": rng.choice(["abort", "stop", "resume"])}]
    re_case = {
        "prop": ID,
        "seed": seed,
        "sim": {"handle_cost": 0.0},
        "re": {},
        "devices": devices,
        "suspenders": {},
        "script": [step],
    }
    n_guess = 6 + npts * (2 + 2 * nad)
    yield {
        "prop": ID,
        "seed": seed,
        "re_case": re_case,
        "delay_datums": [rng.randrange(0, 6) for _ in range(8)] if rng.random() < 0.5 else [],
        "page_events": rng.random() < 0.3,
        # events written by older tools do not carry the optional 'filled' key at all
        "strip_filled": rng.random() < 0.2,
        "page_datums": rng.random() < 0.3,
        "backup": {
            "primary_fails_at": rng.choice([None, 0, 1, rng.randrange(0, n_guess), rng.randrange(0, n_guess)]),
            "primary_keeps_failing": rng.random() < 0.5,
            "n_backups": rng.choice([1, 2]),
            "backup_fails_at": rng.choice([None, None, rng.randrange(0, n_guess)]),
        },
    }


def shrink_candidates(case):
    b = case["backup"]
    if case.get("delay_datums"):
        c = copy.deepcopy(case)
        c["delay_datums"] = []
        yield c
    for k in ("page_events", "page_datums"):
        if case.get(k):
            c = copy.deepcopy(case)
            c[k] = False
            yield c
    if b["n_backups"] > 1:
        c = copy.deepcopy(case)
        c["backup"]["n_backups"] = 1
        yield c
    if b["backup_fails_at"] is not None:
        c = copy.deepcopy(case)
        c["backup"]["backup_fails_at"] = None
        yield c
    step = case["re_case"]["script"][0]
    if step.get("inject"):
        c = copy.deepcopy(case)
        c["re_case"]["script"][0].pop("inject")
        c["re_case"]["script"][0].pop("decisions", None)
        yield c
    # drop whole points (checkpoint .. save) is too entangled with groups; drop devices instead
    for name in list(case["re_case"]["devices"]):
        if name in ("det0", "sd0") or (name.startswith("ad") and name != "ad0"):
            c = copy.deepcopy(case)
            del c["re_case"]["devices"][name]
            c["re_case"]["script"][0]["plan"] = [m for m in c["re_case"]["script"][0]["plan"] if m.get("obj") != name]
            yield c


def reorder(docs, case):
    """Apply the consumer-side orderings: delayed datums, event pages, datum pages."""
    import event_model

    docs = [(n, d) for n, d in docs]
    delays = list(case.get("delay_datums") or [])
    if delays:
        out = []
        held = []  # [remaining, (name, doc)]
        k = 0
        for n, d in docs:
            if n == "stop":
                out.extend(x for _, x in held)
                held = []
            if n == "datum":
                dl = delays[k % len(delays)]
                k += 1
                if dl:
                    held.append([dl, (n, d)])
                    continue
            out.append((n, d))
            if n in ("event",):
                for h in held:
                    h[0] -= 1
                ready = [h for h in held if h[0] <= 0]
                held = [h for h in held if h[0] > 0]
                out.extend(x for _, x in ready)
        out.extend(x for _, x in held)
        docs = out
    if case.get("strip_filled"):
        for n, d in docs:
            if n == "event":
                d.pop("filled", None)
    if case.get("page_events") and not case.get("strip_filled"):
        out = []
        for n, d in docs:
            if n == "event":
                out.append(("event_page", event_model.pack_event_page(d)))
            else:
                out.append((n, d))
        docs = out
    if case.get("page_datums"):
        out = []
        for n, d in docs:
            if n == "datum":
                out.append(("datum_page", event_model.pack_datum_page(d)))
            else:
                out.append((n, d))
        docs = out
    return docs


def run_case(case):
    from event_model import DocumentNames, schema_validators

    from bluesky.callbacks.tiled_writer import RunNormalizer, _ConditionalBackup

    res = Result()
    res.case = case
    r = re_run_case(case["re_case"])
    res.sim = r.sim
    sim = r.sim
    if r.aborted:
        res.aborted = r.aborted
        res.history = r.history
        return res
    # split per run
    runs, cur = [], None
    for e in r.history:
        if e[1] == "doc":
            if e[4]["name"] == "start":
                cur = []
                runs.append(cur)
            if cur is not None:
                cur.append((e[4]["name"], copy.deepcopy(e[4]["doc"])))
    sim.record("phase", what="normalizer", runs=len(runs))
    for ri, docs in enumerate(runs):
        docs = reorder(docs, case)
        norm = RunNormalizer()
        emitted = []
        norm.subscribe(lambda name, doc: emitted.append((name, copy.deepcopy(doc))))
        snaps = [copy.deepcopy(d) for _, d in docs]
        for k, (name, doc) in enumerate(docs):
            n0 = len(emitted)
            try:
                norm(name, doc)
                err = None
            except Exception as e:  # noqa: BLE001
                err = f"{type(e).__name__}: {e}"[:300]
            sim.record("norm", run=ri, k=k, name=name, input=snaps[k], error=err, mutated_now=doc != snaps[k], out=emitted[n0:])
        sim.record("norm_end", run=ri, mutated=[k for k, (_, d) in enumerate(docs) if d != snaps[k]], after=[d for _, d in docs])
        bad = []
        for name, d in emitted:
            try:
                schema_validators[DocumentNames[name]].validate(d)
            except Exception as e:  # noqa: BLE001
                bad.append((name, str(e)[:200]))
        sim.record("norm_valid", run=ri, invalid=bad)
    # part B
    b = case["backup"]
    sim.record("phase", what="backup")
    for ri, docs in enumerate(runs):
        logs = {"primary": [], **{f"b{i}": [] for i in range(b["n_backups"])}}
        count = {"primary": 0, "b0": 0, "b1": 0}

        def primary(name, doc, logs=logs, count=count):
            j = count["primary"]
            count["primary"] += 1
            if b["primary_fails_at"] is not None and (j == b["primary_fails_at"] or (b["primary_keeps_failing"] and j > b["primary_fails_at"])):
                sim.count_fault("primary_writer_fails")
                raise RuntimeError(f"injected primary failure at document {j}")
            logs["primary"].append(id(doc))

        def mk(i):
            def backup(name, doc, logs=logs, count=count):
                j = count[f"b{i}"]
                count[f"b{i}"] += 1
                if i == 1 and b["backup_fails_at"] is not None and j == b["backup_fails_at"]:
                    sim.count_fault("backup_writer_fails")
                    raise RuntimeError(f"injected backup failure at its document {j}")
                logs[f"b{i}"].append((name, id(doc)))

            return backup

        cb = _ConditionalBackup(primary, [mk(i) for i in range(b["n_backups"])])
        ids = []
        for k, (name, doc) in enumerate(docs):
            ids.append((name, id(doc)))
            try:
                cb(name, doc)
                err = None
            except Exception as e:  # noqa: BLE001
                err = f"{type(e).__name__}: {e}"[:200]
            pos = {key: [ids.index(x) if x in ids else -1 for x in logs[key]] for key in logs if key != "primary"}
            sim.record("backup", run=ri, k=k, name=name, error=err, received=pos)
    res.history = sim.history
    return res


RESERVED = ("time", "seq_num")


def check(res):
    out = []
    if res.aborted:
        if res.aborted[0] == "SimInfeasible":
            return []
        return [V("aborted:" + res.aborted[0], str(res.aborted))]
    case = res.case
    H = res.history
    nruns = max([e[4]["run"] for e in H if e[1] == "norm"], default=-1) + 1
    for ri in range(nruns):
        calls = [e[4] for e in H if e[1] == "norm" and e[4]["run"] == ri]
        end = next(e[4] for e in H if e[1] == "norm_end" and e[4]["run"] == ri)
        valid = next(e[4] for e in H if e[1] == "norm_valid" and e[4]["run"] == ri)
        for c in calls:
            if c["error"]:
                out.append(V("normalizer-raised", f"run {ri} document #{c['k']} ({c['name']}): {c['error']}", name=c["name"]))
        for name, msg_ in valid["invalid"]:
            out.append(V("emitted-invalid-document", f"run {ri}: emitted {name} does not validate: {msg_}"))
        for k in end["mutated"]:
            c = calls[k]
            diff = _diff(c["input"], end["after"][k])
            when = "during its own call" if c["mutated_now"] else "by a later call"
            out.append(V("input-mutated", f"run {ri}: input {c['name']} #{k} was modified {when}: {diff}", name=c["name"]))
        if out:
            return out
        emitted = [x for c in calls for x in c["out"]]
        # descriptors: which keys are external
        ext, internal = set(), set()
        for c in calls:
            if c["name"] == "descriptor":
                for key, dk in c["input"]["data_keys"].items():
                    (ext if "external" in dk else internal).add(key)
        ev_out = {d["uid"]: d for n, d in emitted if n == "event"}
        sd_out = [d for n, d in emitted if n == "stream_datum"]
        sr_out = [d for n, d in emitted if n == "stream_resource"]
        in_events = []
        for c in calls:
            if c["name"] == "event":
                in_events.append(c["input"])
            elif c["name"] == "event_page":
                import event_model

                in_events.extend(event_model.unpack_event_page(c["input"]))
        datum_ids = set()
        for c in calls:
            if c["name"] == "datum":
                datum_ids.add(c["input"]["datum_id"])
            elif c["name"] == "datum_page":
                datum_ids.update(c["input"]["datum_id"])
        framed = set()
        resources_in = {c["input"]["uid"] for c in calls if c["name"] == "resource"}
        datum_resource = {}
        for c in calls:
            if c["name"] == "datum":
                datum_resource[c["input"]["datum_id"]] = c["input"]["resource"]
            elif c["name"] == "datum_page":
                for did in c["input"]["datum_id"]:
                    datum_resource[did] = c["input"]["resource"]
        for c in calls:
            if c["name"] == "datum" and "frame" in (c["input"].get("datum_kwargs") or {}):
                framed.add(c["input"]["datum_id"])
            elif c["name"] == "datum_page" and "frame" in (c["input"].get("datum_kwargs") or {}):
                framed.update(c["input"]["datum_id"])
        last_stop = {}
        # a stream keeps its name when it gets a new descriptor (a device of it was re-configured)
        stream_of = {c["input"]["uid"]: c["input"].get("name") for c in calls if c["name"] == "descriptor"}
        in_order = not case.get("delay_datums")  # delayed datums are converted at stop, in cache order
        stopped = any(c["name"] == "stop" for c in calls)
        for ev in in_events:
            o = ev_out.get(ev["uid"])
            if o is None:
                out.append(V("event-lost", f"run {ri}: event {ev['uid']} seq {ev['seq_num']} was not emitted"))
                continue
            for key, val in ev["data"].items():
                okey = "_" + key if key in RESERVED else key
                if key in internal or ev.get("filled", {}).get(key) is True:
                    if okey not in o["data"] or o["data"][okey] != val:
                        out.append(V("internal-value-lost", f"run {ri}: event seq {ev['seq_num']} key {key!r}: value {val!r} missing from the emitted event (has {sorted(o['data'])})", key=key))
                elif key in ext and stopped and val in datum_ids:
                    m = [d for d in sd_out if d["uid"] == val]
                    if len(m) != 1:
                        out.append(V("datum-not-exactly-once", f"run {ri}: datum {val} referenced by event seq {ev['seq_num']} ({key}) produced {len(m)} stream datums"))
                        continue
                    sd = m[0]
                    s = ev["seq_num"]
                    if val in framed:
                        # area-detector style datums carry their own frame index, which takes precedence over the
                        # event's seq_num: require a non-empty range, seq_nums = indices + 1, and contiguity with the
                        # previous stream datum of the same (stream, key)
                        i0, i1 = sd["indices"]["start"], sd["indices"]["stop"]
                        skey = (stream_of.get(ev["descriptor"], ev["descriptor"]), key)
                        prev = last_stop.get(skey, 0)
                        last_stop[skey] = i1
                        # (in the order of the events, whatever the order in which the datums arrived)
                        if not (i1 > i0 and sd["seq_nums"] == {"start": i0 + 1, "stop": i1 + 1} and i0 == prev):
                            out.append(V("stream-datum-range-mismatch", f"run {ri}: framed datum of event seq {s} ({key}) became indices {sd['indices']} seq_nums {sd['seq_nums']} (previous stop {prev})"))
                    elif sd["seq_nums"] != {"start": s, "stop": s + 1} or sd["indices"]["stop"] - sd["indices"]["start"] != 1:
                        out.append(V("stream-datum-range-mismatch", f"run {ri}: datum of event seq {s} ({key}) became indices {sd['indices']} seq_nums {sd['seq_nums']}"))
                    if sd["descriptor"] != ev["descriptor"]:
                        out.append(V("stream-datum-wrong-descriptor", f"run {ri}: datum of event seq {s} attributed to another descriptor"))
                    srs = [d for d in sr_out if d["uid"] == sd["stream_resource"]]
                    if datum_resource.get(val) not in resources_in:
                        # the stream itself lacks the Resource (the RunEngine drops it when a rewind falls between
                        # the first read and its save - noted in DESIGN.md, outside this property): nothing to convert
                        res.sim.probe("datum-without-resource-in-input")
                    elif len(srs) != 1:
                        out.append(V("stream-resource-not-exactly-once", f"run {ri}: stream datum {sd['uid']} names stream resource {sd['stream_resource']} which was emitted {len(srs)} times"))
                    elif srs[0].get("data_key") != key:
                        out.append(V("stream-resource-wrong-key", f"run {ri}: stream resource for {key} carries data_key {srs[0].get('data_key')!r}"))
        # extra stream datums for legacy datums that no event references are not expected
        legacy_sd = [d for d in sd_out if d["uid"] in datum_ids]
        referenced = {val for ev in in_events for key, val in ev["data"].items() if key in ext}
        for d in legacy_sd:
            if d["uid"] not in referenced:
                out.append(V("stream-datum-for-unreferenced-datum", f"run {ri}: datum {d['uid']} is referenced by no event but produced a stream datum"))
        # current-style assets pass through one to one
        n_in_sd = sum(1 for c in calls if c["name"] == "stream_datum")
        n_out_sd = len(sd_out) - len(legacy_sd)
        if n_in_sd != n_out_sd:
            out.append(V("stream-datum-passthrough-count", f"run {ri}: {n_in_sd} stream datums in, {n_out_sd} out"))
        if out:
            return out
    # ---- part B
    b = case["backup"]
    nb = b["n_backups"]
    for ri in range(nruns):
        calls = [e[4] for e in H if e[1] == "backup" and e[4]["run"] == ri]
        fail_at = b["primary_fails_at"]
        for c in calls:
            k = c["k"]
            if c["error"]:
                out.append(V("backup-wrapper-raised", f"run {ri} document #{k}: {c['error']}"))
                return out
            failed = fail_at is not None and k >= fail_at
            for i in range(nb):
                got = c["received"][f"b{i}"]
                if not failed:
                    if got:
                        out.append(V("backup-before-failure", f"run {ri}: backup {i} received {len(got)} documents although the primary has not failed (document #{k})"))
                    continue
                want = list(range(k + 1))
                if i == 1 and b["backup_fails_at"] is not None and b["backup_fails_at"] <= k:
                    want.remove(b["backup_fails_at"])  # the document this backup itself failed on
                if got != want:
                    kind = "backup-duplicate" if len(set(got)) != len(got) else ("backup-out-of-order" if sorted(got) == want else "backup-missing-or-foreign")
                    out.append(V(kind, f"run {ri}: after document #{k} (primary failed at #{fail_at}) backup {i} holds documents {got[:12]}{'...' if len(got) > 12 else ''}, expected {want[:12]}{'...' if len(want) > 12 else ''}"))
                    return out
    return out


def _diff(a, b, path=""):
    if isinstance(a, dict) and isinstance(b, dict):
        for k in sorted(set(a) | set(b), key=str):
            if k not in a:
                return f"{path}/{k} added"
            if k not in b:
                return f"{path}/{k} removed"
            if a[k] != b[k]:
                return _diff(a[k], b[k], f"{path}/{k}")
    return f"{path}: {a!r} -> {b!r}"[:200]


def nontrivial(res):
    kinds = {e[4]["name"] for e in res.history if e[1] == "norm"}
    return bool(kinds & {"resource", "datum", "datum_page", "stream_resource", "stream_datum"}) or res.case["backup"]["primary_fails_at"] is not None


def trace_key(res):
    import hashlib

    b = res.case["backup"]
    s = repr(([e[4]["name"] for e in res.history if e[1] == "norm"], b["primary_fails_at"], b["primary_keeps_failing"], b["n_backups"], b["backup_fails_at"]))
    return hashlib.sha256(s.encode()).hexdigest()[:20]
