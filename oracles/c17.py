"""C17 - RunStart metadata merges sources with documented precedence.

Mostly a function of its inputs; claimed for the part a *history* can break.  Workload: generated
persistent metadata, open_run metadata and RE(...) keyword metadata with overlapping keys; an accepting /
rejecting validator; a tagging normalizer; several calls on one engine, interrupted, resumed, aborted.
Oracle: every RunStart equals normalizer(ChainMap(call kwargs, open_run kwargs, plan identity, persistent
md)) on all user keys; over the whole case the scan_ids of the RunStarts actually emitted increase by one
per opened run, RE.md['scan_id'] equals the last one; per-call keyword metadata still applies to runs opened
after a resume and does not leak into the next call; a rejecting validator means no RunStart for that
open_run, and it is not an opened run: the next RunStart still follows the previous one by exactly one and
RE.md['scan_id'] stays the number of the last run that was opened.
The precedence rule itself is input-sampled (stated plainly: this part is not a simulation result).
"""

import copy

from sim import gen
from sim.dsl import msg

from . import generic
from .common import V, View

ID = "C17"
TITLE = "RunStart metadata merges sources with documented precedence"
QUICK = {"batches": 150, "wall": 50.0}
THOROUGH = {"batches": 5000, "wall": 900.0}

valid_case = generic.valid_case
SHRINK_PLAN = False
KEYS = ["sample", "operator", "purpose", "k1", "k2"]


IDENTITY = ["plan_name", "plan_type"]  # the keys of the 'plan identity' layer


def rand_md(rng, tag):
    md = {k: f"{tag}-{k}" for k in KEYS if rng.random() < 0.5}
    # the identity layer sits between the persistent and the open_run metadata: only these keys can tell
    for k in IDENTITY:
        if rng.random() < 0.15:
            md[k] = f"{tag}-{k}"
    return md


def cases(seed, tier):
    rng = gen.rng_for(ID, seed)
    specs = gen.gen_world(rng, dets=1, motors=1, flyers=0, p_async=0.2)
    pg = gen.PlanGen(rng, specs)
    S = pg.S
    persistent = rand_md(rng, "persist")
    if rng.random() < 0.2:
        persistent = {}  # a store that is empty when the engine is built and filled by its owner later
    case = {
        "prop": ID,
        "seed": seed,
        "sim": {},
        "re": {"md": persistent, "md_normalizer": rng.choice([None, "tag"])},
        "devices": specs,
        "script": [],
    }
    reject = rng.random() < 0.3
    if reject:
        case["re"]["md_validator"] = "reject_key"
        case["re"]["reject_key"] = "forbidden"
    ncalls = rng.choice([1, 2, 3])
    for ci in range(ncalls):
        body = []
        for ri in range(rng.choice([1, 2])):
            omd = rand_md(rng, f"open{ci}{ri}")
            bad = reject and rng.random() < 0.4
            if bad:
                omd["forbidden"] = 1
            o = msg(S, "open_run", None, **omd)
            run = [o, msg(S, "checkpoint")] + pg.point(devices=pg.dets[:1], checkpoint=0.0) + [msg(S, "close_run")]
            if bad:
                # the plan copes with the rejection and goes on
                run = [{"op": "try", "site": S(), "body": [o], "handlers": [{"exc": "ValueError", "body": [msg(S, "null")]}]}]
            body.extend(run)
            body.append(msg(S, "checkpoint"))
        case["script"].append({"do": "call", "plan": body, "md": rand_md(rng, f"call{ci}"), "plan_name": f"plan{ci}", "main": ci == 0})
        if ci + 1 < ncalls and rng.random() < 0.5:
            # between two calls the owner writes to the mapping they handed to RunEngine(md): it is the engine's
            # persistent layer, so the key shows up in the next RunStart
            case["script"].append({"do": "store_put", "key": rng.choice(KEYS), "value": f"later{ci}"})
    dry = generic.run_case(case)
    dv = View(dry)
    if dry.aborted or any(c.outcome != "return" for c in dv.calls):
        raise RuntimeError("generator contract broken: C17 base case did not complete")
    yield case
    K = 10 if tier == "quick" else 20
    call_idx = [i for i, s in enumerate(case["script"]) if s["do"] == "call"]
    for j in range(K):
        c = copy.deepcopy(case)
        c["variant"] = j
        for i in call_idx:
            if rng.random() < 0.7:
                n = dv.calls[call_idx.index(i)].end.d["steps"]
                c["script"][i]["inject"] = gen.gen_injections(rng, n, kinds=["pause", "pause", "abort", "stop", "halt"], k=rng.choice([1, 2]), slack=2)
                c["script"][i]["decisions"] = [{"do": rng.choice(["resume", "resume", "abort", "stop"])} for _ in range(3)]
        yield c


def check(res):
    out = []
    v = View(res)
    if res.aborted:
        return out
    case = res.case
    persistent = dict(case["re"].get("md", {}))
    tagged = case["re"].get("md_normalizer") == "tag"
    reject_key = case["re"].get("reject_key") if case["re"].get("md_validator") else None
    call_steps = [s for s in case["script"] if s["do"] == "call"]
    last_scan = 0
    invs = iter(v.invocations)
    for step in case["script"]:
        if step["do"] == "store_put":
            persistent[step["key"]] = step["value"]
            continue
        if step["do"] != "call":
            continue
        inv = next(invs, None)
        if inv is None:
            break
        call_md = step.get("md", {})
        msgs = {}
        for e in inv.events:
            if e.kind == "msg":
                msgs[e.d["mid"]] = e
            if e.kind == "cmd" and e.d["cmd"] == "open_run":
                m = msgs.get(e.d["mid"])
                if m is None:
                    continue
                omd = {k: x for k, x in m.d["kw"].items()}
                starts = [d for d in inv.events if d.kind == "doc" and d.d["name"] == "start" and m.seq < d.seq < e.seq]
                if reject_key and reject_key in omd:
                    if starts or e.d["end"] == "ok":
                        out.append(V("rejected-metadata-emitted", f"validator rejects {reject_key!r} but open_run ended {e.d['end']} with {len(starts)} RunStart"))
                    continue
                if e.d["end"] != "ok":
                    continue
                if len(starts) != 1:
                    out.append(V("start-count", f"open_run emitted {len(starts)} RunStart documents"))
                    continue
                doc = starts[0].d["doc"]
                for k in KEYS + ["forbidden"]:
                    want = call_md.get(k, omd.get(k, persistent.get(k, None)))
                    if doc.get(k) != want:
                        src = "call kwargs" if k in call_md else "open_run" if k in omd else "persistent md" if k in persistent else "nowhere"
                        out.append(V("metadata-precedence", f"start[{k!r}] = {doc.get(k)!r}, expected {want!r} (from {src})", key=k))
                identity = {"plan_name": step.get("plan_name", ""), "plan_type": "generator"}
                for k in IDENTITY:
                    want = call_md.get(k, omd.get(k, identity[k]))
                    if doc.get(k) != want:
                        src = "call kwargs" if k in call_md else "open_run" if k in omd else "the plan's identity (which overlays the persistent metadata)"
                        out.append(V("plan-identity", f"start[{k!r}] = {doc.get(k)!r}, expected {want!r} from {src}; persistent md has {persistent.get(k)!r}", key=k))
                if tagged and doc.get("normalized") is not True:
                    out.append(V("normalizer-not-applied", "md_normalizer's tag is missing from the RunStart"))
                if doc.get("scan_id") != last_scan + 1:
                    out.append(V("scan-id-step", f"scan_id {doc.get('scan_id')} follows {last_scan}"))
                last_scan = doc.get("scan_id")
        if inv.calls and inv.calls[-1].end is not None:
            sid = inv.calls[-1].end.d.get("scan_id")
            if last_scan and sid != last_scan:
                out.append(V("persistent-scan-id", f"RE.md['scan_id'] = {sid} but the last RunStart has {last_scan}"))
            store = inv.calls[-1].end.d.get("store_scan_id", sid)
            if last_scan and store != last_scan:
                out.append(V("persistent-store-not-updated", f"the mapping given to RunEngine(md) holds scan_id = {store} but the last RunStart has {last_scan}"))
    return out
