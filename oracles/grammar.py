"""Small plan-program grammar and the differential machinery for the preprocessor properties C20-C22.

Programs: sequences of yields (null, sleep, set+wait, trigger+wait, checkpoint), nested sub-plans,
try/except/finally with yields in every clause, raise, return.  The *driver scripts* are what the RunEngine
can produce under fault injection: responses, exceptions thrown at a yield (device faults, failed statuses,
RequestStop / RequestAbort from stop/abort), generator close (halt), pause + rewind.
Both renderings of a program are run under the *same case* (same seed => same uuids, statuses and virtual
times; same faults at the same (device, method, occurrence); same injections at the same loop handles: the
wrappers are synchronous generators and add no event-loop handles), so the histories must agree exactly.
"""

from __future__ import annotations

import copy

from sim import gen
from sim.dsl import msg
from sim.runner import run_case

from . import generic
from .common import V, View


def gen_stmts(pg, depth=0, n=None, allow_return=True):
    rng, S = pg.rng, pg.S
    out = []
    n = n if n is not None else rng.choice([1, 2, 3, 4])
    for _ in range(n):
        r = rng.random()
        if r < 0.30:
            out.append(msg(S, rng.choice(["null", "null", "checkpoint"])))
        elif r < 0.40:
            out.append(msg(S, "sleep", None, rng.choice([0.0, 0.1])))
        elif r < 0.55 and pg.motors:
            g = pg.group()
            out += [msg(S, "set", rng.choice(pg.motors), rng.choice([1.0, 2.0, -1.0]), group=g), msg(S, "wait", None, group=g)]
        elif r < 0.70 and pg.dets:
            g = pg.group()
            out += [msg(S, "trigger", rng.choice(pg.dets), group=g), msg(S, "wait", None, group=g)]
        elif r < 0.86 and depth < 2:
            node = {"op": "try", "site": S(), "body": gen_stmts(pg, depth + 1, allow_return=allow_return)}
            k = rng.random()
            if k < 0.5:
                node["handlers"] = [
                    {
                        "exc": rng.choice(["Exception", "DeviceFault", "PlanError", "RunEngineControlException", "FailedStatus"]),
                        "body": gen_stmts(pg, depth + 1, n=rng.choice([0, 1, 2]), allow_return=False),
                        "reraise": rng.random() < 0.3,
                    }
                ]
                if rng.random() < 0.3:
                    node["else"] = gen_stmts(pg, depth + 1, n=1, allow_return=False)
            if k >= 0.35:
                node["finally"] = gen_stmts(pg, depth + 1, n=rng.choice([1, 2]), allow_return=False)
            out.append(node)
        elif r < 0.89 and depth < 2 and pg.dets and not getattr(pg, "no_reuse", False):
            # a retry loop that yields the *same* Msg object again on every attempt
            g = pg.group()
            trig = msg(S, "trigger", rng.choice(pg.dets), group=g)
            trig["reuse"] = True
            wait = msg(S, "wait", None, group=g)
            wait["reuse"] = rng.random() < 0.5
            attempt = {"op": "try", "site": S(), "body": [trig, wait], "handlers": [{"exc": rng.choice(["Exception", "DeviceFault", "FailedStatus"]), "body": [msg(S, "null")], "reraise": False}]}
            if rng.random() < 0.4:
                attempt["finally"] = [msg(S, "null")]
            out.append({"op": "repeat", "n": rng.choice([2, 3]), "body": [attempt]})
        elif r < 0.92 and depth < 2:
            out.append({"op": "seq", "body": gen_stmts(pg, depth + 1, allow_return=allow_return)})
        elif r < 0.96:
            out.append({"op": "raise", "exc": "PlanError", "site": S()})
        elif allow_return:
            out.append({"op": "return", "value": rng.choice([1, "x", None])})
    return out


def world(rng):
    specs = gen.gen_world(rng, motors=1, dets=rng.choice([1, 2]), flyers=0, p_async=0.0, pausable=0.0)
    return specs


def schedule(rng, case, dv, n, *, ci=0):
    """One driver script: device faults, one terminator or pause+resume, or nothing."""
    c = copy.deepcopy(case)
    r = rng.random()
    if r < 0.45:
        generic.add_device_faults(rng, c, dv, k=rng.choice([1, 1, 2]))
    r = rng.random()
    if r < 0.35:
        c["script"][ci]["inject"] = [{"id": "t0", "at": {"step": rng.randrange(0, n + 3)}, "do": rng.choice(["stop", "abort", "halt"])}]
    elif r < 0.6:
        c["script"][ci]["inject"] = [{"id": "p0", "at": {"step": rng.randrange(0, n + 3)}, "do": "pause"}]
        c["script"][ci]["decisions"] = [{"do": rng.choice(["resume", "resume", "stop", "abort", "halt"])}]
    return c


def comparable(res, kinds=("msg", "plan", "doc", "call_end", "state", "dev", "status")):
    out = []
    for e in res.history:
        k, d = e[1], e[4]
        if k not in kinds:
            continue
        if k == "msg":
            out.append(("msg", d["cmd"], d["obj"], repr(d["args"]), repr(sorted(d["kw"].items())), d["run"], d["mid"], d["state"], e[2], e[3]))
        elif k == "plan":
            if d["what"] in ("proc",):
                continue
            out.append(("plan", d["what"], d.get("site"), d.get("mid"), d.get("exc"), repr(d.get("value")), e[2]))
        elif k == "doc":
            out.append(("doc", d["name"], repr(sorted((a, repr(b)) for a, b in d["doc"].items())), e[2]))
        elif k == "call_end":
            out.append(("call_end", d["api"], d["outcome"], d["exc"], d["text"], repr(d["value"]), d["state"]))
        elif k == "state":
            out.append(("state", d["new"], e[2]))
        elif k == "dev":
            out.append(("dev", d["dev"], d["method"], d.get("occ"), d.get("fault"), e[2]))
        elif k == "status":
            out.append(("status", d["dev"], d["op"], d["sid"], d["ok"], e[3]))
    return out


def first_difference(a, b):
    for i, (x, y) in enumerate(zip(a, b)):
        if x != y:
            return i, x, y
    if len(a) != len(b):
        i = min(len(a), len(b))
        return i, a[i] if i < len(a) else None, b[i] if i < len(b) else None
    return None


def differential(res, twin_case, cls, label, kinds=None, site_filter=None):
    """Compare `res` (already run) with a run of `twin_case`; returns violations."""
    twin = run_case(twin_case)
    if twin.aborted or res.aborted:
        if bool(twin.aborted) != bool(res.aborted):
            return [V(cls + ":abort-differs", f"{label}: one rendering was aborted by the simulator ({res.aborted} vs {twin.aborted})")]
        return []
    kw = {"kinds": kinds} if kinds else {}
    a, b = comparable(res, **kw), comparable(twin, **kw)
    if site_filter is not None:
        a, b = [x for x in a if site_filter(x)], [x for x in b if site_filter(x)]
    d = first_difference(a, b)
    if d is None:
        return []
    i, x, y = d
    return [V(cls, f"{label}: histories diverge at comparable event {i}: {str(x)[:230]}  vs  {str(y)[:230]}", index=i)]
