"""C01 - Every opened run is a well-formed document stream, whatever happens.

History check whenever the engine is idle again (end of each invocation):
  per RunStart uid: exactly one start and it is first; exactly one stop and it is last;
  every descriptor / resource / stream_resource names that start; every event / event_page names a
  descriptor of the same run emitted earlier; every stream_datum names a stream_resource and a
  descriptor of the same run emitted earlier; every datum names a resource emitted earlier;
  every document validates against the event-model schema; no (kind, uid) is emitted twice.
The recorder is the first subscriber, so a raising user callback cannot hide documents from it.
"""

import event_model
from event_model import DocumentNames

from . import generic
from .common import V, View

ID = "C01"
TITLE = "Every opened run is a well-formed document stream, whatever happens"
QUICK = {"batches": 200, "wall": 50.0}
THOROUGH = {"batches": 6000, "wall": 900.0}

valid_case = generic.valid_case


def cases(seed, tier):
    yield from generic.interruption_cases(ID, seed, tier, dev_faults=0.4, K=(12, 20), flyers=1)
    yield from generic.resume_window_cases(ID, seed, tier)
    yield from subscriber_fails_on_stop_cases(seed, tier)


def subscriber_fails_on_stop_cases(seed, tier):
    """A subscriber (registered after the recorder) raises while it is handed a RunStop.  The document is out: the
    run is over, whatever the plan does next under that run key (it copes with the error and tries to take another
    data point, or lets the error pass) no document of the run follows its RunStop and no second RunStop is made."""
    import copy

    from sim import gen
    from sim.dsl import msg

    rng = gen.rng_for(ID, seed, "stop-subscriber")
    specs = gen.gen_world(rng, motors=1, dets=2, flyers=0, p_async=0.3)
    pg = gen.PlanGen(rng, specs)
    S = pg.S
    d = pg.dets[0]
    for j in range(2 if tier == "quick" else 4):
        keys = [None] if rng.random() < 0.5 else ["A", "B"]
        plan = [msg(S, "open_run", None, run=k) for k in keys]
        victim = keys[-1]
        for k in keys:
            plan += [msg(S, "checkpoint"), msg(S, "create", None, name="primary", run=k), msg(S, "read", d, run=k), msg(S, "save", None, run=k)]
        handled = rng.random() < 0.7
        close = msg(S, "close_run", None, run=victim)
        if rng.random() < 0.25:
            # the plan leaves the victim run open: the engine's end-of-call clean-up writes the RunStop, the subscriber
            # fails on *that* one (the clean-up's second attempt must not produce a second RunStop)
            close = msg(S, "null")
            handled = False
        if handled:
            plan.append({"op": "try", "site": S(), "body": [close], "handlers": [{"exc": "Exception", "body": [msg(S, "null")], "reraise": False}]})
            again = [msg(S, "create", None, name="primary", run=victim), msg(S, "read", d, run=victim), msg(S, "save", None, run=victim)]
            if rng.random() < 0.5:
                again = [msg(S, "close_run", None, run=victim)]
            # (legal only while the run is still open: the plan does not know, it copes with the refusal)
            plan.append({"op": "try", "site": S(), "body": again, "handlers": [{"exc": "IllegalMessageSequence", "body": [msg(S, "null")], "reraise": False}]})
        else:
            plan.append(close)
        plan += [msg(S, "close_run", None, run=k) for k in keys if k != victim]
        c = {
            "prop": ID,
            "seed": seed,
            "variant": f"subscriber-fails-on-stop-{j}",
            "sim": {"handle_cost": 0.0},
            "re": {},
            "devices": copy.deepcopy(specs),
            "suspenders": {},
            "callbacks": {"cbX": {"raise_at": {"stop": [0]}}},
            "script": [
                {"do": "subscribe", "cb": "cbX", "name": "all", "token": "x0"},
                {"do": "call", "plan": plan, "main": True},
                {"do": "call", "plan": [msg(S, "open_run"), msg(S, "close_run")], "tag": "followup-run"},
            ],
        }
        for d_ in c["devices"].values():
            d_.pop("faults", None)
        yield c


def _uids(name, doc):
    if name in ("event_page",):
        return list(doc.get("uid", []))
    if name == "datum":
        return [doc.get("datum_id")]
    if name == "datum_page":
        return list(doc.get("datum_id", []))
    return [doc.get("uid")]


def check_docs(events, idle_at_end=True):
    out = []
    seen = set()
    starts = {}  # uid -> state dict
    desc_run = {}
    res_run = {}
    sres_run = {}
    for e in events:
        if e.kind != "doc":
            continue
        name, doc = e.d["name"], e.d["doc"]
        try:
            event_model.schema_validators[DocumentNames[name]].validate(doc)
        except Exception as ex:  # jsonschema ValidationError
            out.append(V("schema-invalid:" + name, f"{name} document does not validate: {str(ex)[:200]}", name=name))
        for u in _uids(name, doc):
            if (name, u) in seen:
                out.append(V("duplicate-uid:" + name, f"{name} uid {u} emitted twice", name=name))
            seen.add((name, u))
        if name == "start":
            starts[doc["uid"]] = {"stopped": False, "n": 0}
            continue
        run = None
        if name in ("descriptor", "stop", "resource", "stream_resource"):
            run = doc.get("run_start")
            if run not in starts:
                out.append(V("orphan:" + name, f"{name} refers to run_start {run} which was not emitted earlier", name=name))
                continue
            if name == "descriptor":
                desc_run[doc["uid"]] = run
            elif name == "resource":
                res_run[doc["uid"]] = run
            elif name == "stream_resource":
                sres_run[doc["uid"]] = run
        elif name in ("event", "event_page"):
            run = desc_run.get(doc.get("descriptor"))
            if run is None:
                out.append(V("orphan:" + name, f"{name} refers to descriptor {doc.get('descriptor')} not emitted earlier", name=name))
                continue
        elif name == "stream_datum":
            run = desc_run.get(doc.get("descriptor"))
            r2 = sres_run.get(doc.get("stream_resource"))
            if run is None or r2 is None:
                out.append(V("orphan:stream_datum", f"stream_datum refers to descriptor/stream_resource not emitted earlier"))
                continue
            if run != r2:
                out.append(V("cross-run:stream_datum", "stream_datum's descriptor and stream_resource belong to different runs"))
        elif name in ("datum", "datum_page"):
            run = res_run.get(doc.get("resource"))
            if run is None:
                out.append(V("orphan:" + name, f"{name} refers to resource {doc.get('resource')} not emitted earlier", name=name))
                continue
        st = starts[run]
        if st["stopped"]:
            out.append(V("doc-after-stop:" + name, f"{name} emitted for run {run[:8]} after its stop document", name=name))
        if name == "stop":
            if st["stopped"]:
                out.append(V("second-stop", f"run {run[:8]} has two stop documents"))
            st["stopped"] = True
    if idle_at_end:
        for uid, st in starts.items():
            if not st["stopped"]:
                out.append(V("no-stop", f"run {uid[:8]} has no stop document although the engine is idle again"))
    return out


def check(res):
    out = []
    v = View(res)
    if res.aborted:
        return out
    for inv in v.invocations:
        if not inv.calls or inv.calls[-1].end is None:
            continue
        out.extend(check_docs(inv.events, idle_at_end=(inv.final_state == "idle")))
    return out
