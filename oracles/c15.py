"""C15 - Events contain exactly the readings bundled between create and save.

Workload: generated bundle sequences on 1-2 streams over detectors with one or two data keys, motors, and
a detector whose key collides with another's; illegal steps (reading two objects with overlapping keys,
checkpoint or configure inside a bundle) sit inside logging try/except blocks; 'drop' and empty bundles.
What simulation adds: bundles cut by a pause / suspension at every handle (including inside an async read
or the very first read of a device) and re-taken, so that a stale reading from the cancelled attempt
surviving into the re-taken event would be caught; device read faults in the middle of a bundle.
Oracle, per run: for every 'save' that completes, the event emitted in that handle carries exactly the union
of the readings the device returned to the 'read' messages executed since the matching 'create' of that
attempt (a rewind cancels the open attempt); its descriptor was emitted earlier and its data keys are the
union of the objects' describe() keys; a colliding read raises ValueError at that yield; checkpoint /
configure inside a bundle raise IllegalMessageSequence; 'drop', or 'save' with nothing read, emits nothing and
the next event's seq_num shows that none was consumed.
"""

import copy

from sim import gen
from sim.dsl import msg

from . import generic
from .common import V, View

ID = "C15"
TITLE = "Events contain exactly the readings bundled between create and save"
QUICK = {"batches": 150, "wall": 50.0}
THOROUGH = {"batches": 5000, "wall": 900.0}

valid_case = generic.valid_case
SHRINK_PLAN = False


def bundle_plan(pg):
    rng, S = pg.rng, pg.S
    body = [msg(S, "open_run")]
    streams = {"primary": None, "aux": None}
    declared = {}
    readables = pg.dets + pg.motors
    for _ in range(rng.choice([3, 4, 5, 6])):
        stream = rng.choice(["primary", "primary", "aux"])
        if streams[stream] is None:
            k = rng.choice([1, 2, 2])
            streams[stream] = rng.sample(readables, min(k, len(readables)))
        objs = streams[stream]
        if rng.random() < 0.7:
            body.append(msg(S, "checkpoint"))
        for o in objs:
            if pg.specs[o]["kind"] == "assetdet":
                # a detector that stores its data externally makes its Datum (and, the first time, its Resource) when
                # it is triggered and hands them over at the first 'read' that follows
                g = pg.group()
                body += [msg(S, "trigger", o, group=g), msg(S, "wait", None, group=g)]
        body.append(msg(S, "create", None, name=stream))
        kind = rng.choice(["normal", "normal", "normal", "drop", "empty", "collide", "checkpoint_inside", "configure_inside", "mismatch"])
        if kind == "collide" and "d1" not in objs:
            kind = "normal"
        if kind == "mismatch":
            # a bundle that reads another set of objects than its stream was declared with: 'save' is rejected
            # (the plan catches that and carries on); the rejected bundle must leave nothing behind for the next one
            extra = [o for o in readables if o not in objs]
            if not declared.get(stream) or not extra:
                kind = "normal"
            else:
                for o in objs[: rng.choice([0, 1])] + [rng.choice(extra)]:
                    body.append(msg(S, "read", o))
                body.append({"op": "try", "site": S(), "body": [msg(S, "save")], "handlers": [{"exc": "RuntimeError", "body": [msg(S, "null")]}]})
                if rng.random() < 0.5:
                    # ... for instance an empty bundle on a stream that does not exist yet
                    body += [msg(S, "create", None, name="late"), msg(S, "save")]
                continue
        if kind == "empty":
            body.append(msg(S, "save"))
            continue
        for o in objs:
            body.append(msg(S, "read", o))
        if kind == "collide":
            body.append(
                {
                    "op": "try",
                    "site": S(),
                    "body": [msg(S, "read", "dx")],
                    "handlers": [{"exc": "ValueError", "body": [msg(S, "null")]}],
                }
            )
        elif kind == "checkpoint_inside":
            body.append(
                {"op": "try", "site": S(), "body": [msg(S, "checkpoint")], "handlers": [{"exc": "IllegalMessageSequence", "body": [msg(S, "null")]}]}
            )
        elif kind == "configure_inside":
            body.append(
                {
                    "op": "try",
                    "site": S(),
                    "body": [msg(S, "configure", objs[0], exposure=3.0)],
                    "handlers": [{"exc": "IllegalMessageSequence", "body": [msg(S, "null")]}],
                }
            )
        body.append(msg(S, "drop" if kind == "drop" else "save"))
        if kind != "drop":
            declared[stream] = True
    body.append(msg(S, "close_run"))
    return body


def cases(seed, tier):
    rng = gen.rng_for(ID, seed)
    specs = gen.gen_world(rng, dets=2, flyers=0, p_async=0.35)
    # a detector whose data key collides with d1's
    specs["dx"] = {"kind": "det", "base": 50.0, "trigger_delay": 0.0, "coef": {}, "keys": ["d1"]}
    specs["sigS"] = {"kind": "signal", "initial": 0}
    if rng.random() < 0.5:
        # a detector with externally stored data: its Resource / Datum documents travel with the bundle it is read in
        specs["ad0"] = {"kind": "assetdet", "trigger_delay": rng.choice([0.0, 0.01]), "keys": ["ad0_image", "ad0_stat"]}
    pg = gen.PlanGen(rng, specs)
    pg.dets = [d for d in pg.dets if d != "dx"]
    if "ad0" in specs and "ad0" not in pg.dets:
        pg.dets.append("ad0")
    body = bundle_plan(pg)
    S = pg.S
    case = {
        "prop": ID,
        "seed": seed,
        "sim": {"handle_cost": rng.choice([0.0, 0.0, 1e-4])},
        "re": {},
        "devices": specs,
        "suspenders": {"s0": {"cls": "SuspendBoolHigh", "signal": "sigS", "kwargs": {"sleep": rng.choice([0, 0.5])}}},
        "script": [{"do": "install_suspender", "sus": "s0"}, {"do": "call", "plan": body, "main": True}],
    }
    retarget = generic.second_suspender(case, ID, seed)
    dry, dv, n = generic.dry_run(case)
    yield case
    ci = generic.main_index(case)
    K = 12 if tier == "quick" else 24
    for j in range(K):
        c = copy.deepcopy(case)
        c["variant"] = j
        inj = gen.gen_injections(rng, n, kinds=["pause", "pause", "trip"], k=rng.choice([1, 1, 2, 3]), slack=2)
        for i in inj:
            if i["do"] == "trip":
                i["args"] = retarget(generic.trip_args(rng))
        c["script"][ci]["inject"] = inj
        c["script"][ci]["decisions"] = [{"do": "resume"} for _ in range(5)]
        c["script"][ci]["final"] = "resume"
        if rng.random() < 0.25:
            generic.add_device_faults(rng, c, dv, k=1, kinds=("raise",))
        yield c
    # a subscriber fails while it is handed a stream's descriptor; the plan copes with the error at that 'save' and
    # takes the data point again: a subscriber registered *after* the failing one still gets, before any event of the
    # stream, the descriptor that event refers to
    d0 = pg.dets[0]
    for j in range(2):

        def bundle(stream="primary"):
            return [msg(S, "create", None, name=stream), msg(S, "read", d0), msg(S, "save")]

        plan = [msg(S, "open_run"), msg(S, "checkpoint")]
        plan.append({"op": "try", "site": S(), "body": bundle(), "handlers": [{"exc": "Exception", "body": [msg(S, "null")] + bundle(), "reraise": False}]})
        plan += [msg(S, "checkpoint")] + bundle()
        if rng.random() < 0.5:
            plan.append({"op": "try", "site": S(), "body": bundle("aux"), "handlers": [{"exc": "Exception", "body": bundle("aux"), "reraise": False}]})
        plan.append(msg(S, "close_run"))
        c = copy.deepcopy(case)
        c["variant"] = f"subscriber-raises-on-descriptor-{j}"
        c["callbacks"] = {"cbX": {"raise_at": {"descriptor": [rng.choice([0, 0, 1])]}}, "cbY": {}}
        c["script"] = [
            {"do": "subscribe", "cb": "cbX", "name": "all", "token": "x0"},
            {"do": "subscribe", "cb": "cbY", "name": "all", "token": "y0"},
            {"do": "call", "plan": plan, "main": True},
        ]
        c["suspenders"] = {}
        yield c


def check(res):
    out = []
    v = View(res)
    res.notes = {}
    if res.aborted:
        return out
    inv = v.invocations[0]
    evs = inv.events
    if str(res.case.get("variant", "")).startswith("subscriber-raises-on-descriptor"):
        docs = {e.d["doc"].get("uid"): e.d["doc"] for e in evs if e.kind == "doc" and e.d["name"] in ("event", "descriptor")}
        given = set()
        res.notes["subscriber_raises_on_descriptor"] = 1
        for e in evs:
            if e.kind == "cb" and e.d["cid"] == "cbY":
                if e.d["name"] == "descriptor":
                    given.add(e.d["uid"])
                elif e.d["name"] == "event":
                    want = (docs.get(e.d["uid"]) or {}).get("descriptor")
                    if want is not None and want not in given:
                        out.append(V("subscriber-got-event-without-its-descriptor", f"a subscriber registered after the failing one received event {str(e.d['uid'])[:8]} but never the descriptor {str(want)[:8]} it refers to"))
                        break
        return out
    # every illegal step of these plans sits inside a handler of the plan: whatever the schedule, no call ends with
    # the engine refusing a message sequence (e.g. a replay that opens a bundle twice because the failed 'save' that
    # closed it the first time is not part of the replay)
    for c_ in inv.calls:
        if c_.end is not None and c_.outcome == "raise" and c_.exc == "IllegalMessageSequence":
            out.append(V("call-ended-with-illegal-sequence", f"{c_.api} raised IllegalMessageSequence: {c_.end.d['text'][:160]}", api=c_.api))
            return out
    msgs = {}  # mid -> most recent 'msg' event (a replayed message is handed over again)
    specs = res.case["devices"]

    def keys_of(dev):
        s = specs[dev]
        return list(s.get("keys") or [dev])

    bundle = None  # None = not bundling; else {"stream":..., "reads": [(dev, data)]}
    outside_at_rewind = False
    replayed_now = False
    executed_mids = set()
    seen_seq = {}  # stream -> highest seq_num emitted so far
    prev_max = {}  # event seq -> highest seq_num of its stream before it
    described = {}  # stream -> data keys of the latest descriptor
    desc_name = {}
    docs_at_step = {}
    for e in evs:
        if e.kind == "doc":
            docs_at_step.setdefault(e.step, []).append(e)
    for e in evs:
        if e.kind == "msg":
            msgs[e.d["mid"]] = e
        if e.kind == "doc" and e.d["name"] == "descriptor":
            described[e.d["doc"]["name"]] = (e.seq, set(e.d["doc"]["data_keys"]))
            desc_name[e.d["doc"]["uid"]] = e.d["doc"]["name"]
        if e.kind == "doc" and e.d["name"] == "event":
            sname = desc_name.get(e.d["doc"]["descriptor"])
            prev_max[e.seq] = seen_seq.get(sname, 0)  # highest seq_num of the stream before this event
            seen_seq[sname] = max(seen_seq.get(sname, 0), e.d["doc"]["seq_num"])
        if (e.kind == "call_begin" and e.d["api"] == "resume") or (e.kind == "msg" and e.d["cmd"] == "_start_suspender"):
            outside_at_rewind = bundle is None  # where the plan stands: inside a bundle of its own, or not
            bundle = None  # a rewind cancels the open attempt
            continue
        if e.kind == "msg":
            replayed_now = e.d["mid"] in executed_mids
            executed_mids.add(e.d["mid"])
            continue
        if e.kind != "cmd":
            continue
        m = msgs.get(e.d["mid"])
        if m is None:
            continue
        cmd, end = e.d["cmd"], e.d["end"]
        if end == "error" and replayed_now and outside_at_rewind and bundle is not None:
            # a message of the replay failed inside a bundle that the replay had opened, and the plan stands outside
            # any bundle: the engine cancels that bundle (the plan is past it and would never close it)
            bundle = None
            continue
        if cmd == "create" and end == "ok":
            bundle = {"stream": m.d["kw"].get("name"), "reads": []}
        elif cmd == "read":
            if m.d["obj"] == "dx" and bundle is not None and any(dev == "d1" for dev, _ in bundle["reads"]):
                if end == "cancelled" or str(e.d.get("exc", "")).startswith("Injected"):
                    continue  # interrupted, or an injected device fault pre-empted the collision check
                if end != "error" or e.d.get("exc") != "ValueError":
                    out.append(V("collision-not-rejected", f"reading dx (key 'd1') into a bundle that already holds d1's key ended '{end}' {e.d.get('exc')}"))
                continue
            if end == "ok" and bundle is not None:
                bundle["reads"].append((m.d["obj"], e.d["value"]))
        elif cmd in ("checkpoint", "configure"):
            if bundle is not None and (end != "error" or e.d.get("exc") != "IllegalMessageSequence"):
                out.append(V("illegal-inside-bundle-accepted", f"{cmd} inside an open bundle ended '{end}' {e.d.get('exc')}"))
        elif cmd == "drop" and end == "ok":
            if any(d.d["name"] == "event" for d in docs_at_step.get(e.step, []) if d.seq < e.seq and d.seq > m.seq):
                out.append(V("drop-emitted-event", "a 'drop' emitted an event"))
            elif any(m.seq < d.seq < e.seq for d in docs_at_step.get(e.step, [])):
                names = [d.d["name"] for d in docs_at_step.get(e.step, []) if m.seq < d.seq < e.seq]
                out.append(V("drop-emitted-document", f"a 'drop' emitted {names}: a dropped bundle emits nothing"))
            bundle = None
        elif cmd == "save" and end == "error":
            # a rejected save (objects differ from the stream's declaration) ends the bundle and emits nothing
            if any(d.d["name"] == "event" for d in docs_at_step.get(e.step, []) if m.seq < d.seq < e.seq):
                out.append(V("rejected-save-emitted-event", f"a 'save' that raised {e.d.get('exc')} emitted an event"))
            bundle = None
        elif cmd == "save" and end == "ok":
            emitted = [d for d in docs_at_step.get(e.step, []) if m.seq < d.seq < e.seq and d.d["name"] == "event"]
            if bundle is None:
                continue
            stream = bundle["stream"]
            if not bundle["reads"]:
                if emitted:
                    out.append(V("empty-bundle-emitted-event", f"save with nothing read emitted an event in {stream!r}"))
                bundle = None
                continue
            res.notes["bundles_checked"] = res.notes.get("bundles_checked", 0) + 1
            if len(emitted) != 1:
                out.append(V("save-event-count", f"save of a bundle with {len(bundle['reads'])} readings emitted {len(emitted)} events"))
                bundle = None
                continue
            doc = emitted[0].d["doc"]
            want = {}
            for dev, val in bundle["reads"]:
                if isinstance(val, dict):
                    for k, r in val.items():
                        want[k] = r.get("value") if isinstance(r, dict) else r
            if doc["data"] != want:
                out.append(
                    V(
                        "event-data-differs-from-bundle",
                        f"stream {stream!r} seq {doc['seq_num']}: event data {doc['data']} but the bundle's readings were {want}",
                        stream=stream,
                    )
                )
            dn = desc_name.get(doc["descriptor"])
            if dn != stream:
                out.append(V("event-in-wrong-stream", f"bundle for {stream!r} emitted into descriptor {dn!r}"))
            dk = described.get(stream)
            union = set()
            for dev, _ in bundle["reads"]:
                union |= set(keys_of(dev))
            if dk is None or dk[0] > emitted[0].seq:
                out.append(V("descriptor-after-event", f"stream {stream!r}: no descriptor before its event"))
            elif dk[1] != union:
                out.append(V("descriptor-keys", f"stream {stream!r}: descriptor keys {sorted(dk[1])} vs described objects {sorted(union)}"))
            prev = prev_max.get(emitted[0].seq, 0)
            if doc["seq_num"] > prev + 1:
                out.append(V("seq-num-consumed-by-nothing", f"stream {stream!r}: seq_num {doc['seq_num']} follows {prev}: a dropped/empty bundle consumed a number"))
            bundle = None
    return out
