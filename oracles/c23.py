"""C23 - Paired-action wrappers always undo what they did.

Workload: a generated inner plan wrapped (in generated nestings) in run_wrapper, stage_wrapper /
lazily_stage_wrapper (device lists with a shared ancestor), subs_wrapper, suspend_wrapper,
monitor_during_wrapper and fly_during_wrapper; the wrapped plan succeeds, fails at an arbitrary device
operation, is stopped / aborted at an arbitrary handle, or is paused and resumed.
Oracle on the message trace (everything the engine was handed), strict on single-cause schedules:
  run_wrapper      one 'close_run' per accepted 'open_run', exit_status None on success, 'success' after
                   RE.stop(), 'abort' after RE.abort(), 'fail' with reason == str(error) after a failure;
  stage wrappers   one 'unstage' for every device whose 'stage' was executed, in reverse order;
  subs_wrapper     an 'unsubscribe' for every token a 'subscribe' returned;
  suspend_wrapper  a 'remove_suspender' for every 'install_suspender';
  monitor_during / fly_during   'unmonitor' / 'complete'+'collect' for every device, before each 'close_run'.
After RE.halt() the plan's cleanup is skipped by design: nothing is asserted.
"""

import copy

from sim import gen
from sim.dsl import msg

from . import generic, grammar
from .common import V, View, monitor_lost_in_flight

ID = "C23"
TITLE = "Paired-action wrappers always undo what they did"
QUICK = {"batches": 600, "wall": 50.0}
THOROUGH = {"batches": 5000, "wall": 900.0}
SHRINK_PLAN = False


def cases(seed, tier):
    rng = gen.rng_for(ID, seed)
    specs = gen.gen_world(rng, motors=1, dets=2, flyers=1, p_async=0.2, pausable=0.0)
    # a shared ancestor: d1 and d2 are components of 'stack'
    specs["stack"] = {"kind": "det", "base": 0.0, "coef": {}, "trigger_delay": 0.0}
    if rng.random() < 0.5:
        specs["d1"]["parent"] = "stack"
        specs["d2"]["parent"] = "stack"
        r_ = rng.random()
        if r_ < 0.3:
            specs["stack"]["stage_lists"] = "self"  # stage() answers [stack] only: the components are not listed
        elif r_ < 0.45:
            specs["stack"]["stage_status"] = True  # stage() / unstage() answer with a Status object
    specs["sigS"] = {"kind": "signal", "initial": 0}
    pg = gen.PlanGen(rng, specs)
    pg.dets = [d for d in pg.dets if d != "stack"]
    S = pg.S
    inner = []
    devs = pg.dets[: rng.choice([1, 2])]
    for _ in range(rng.choice([1, 2, 3])):
        inner.extend(pg.point(devices=devs, move=0.5, checkpoint=1.0))
    used = []
    body = inner
    order = rng.sample(["monitor", "fly", "stage", "lazy", "subs", "suspend"], rng.choice([1, 2, 3]))
    if "stage" in order and "lazy" in order:
        order.remove("lazy")
    # monitor/fly wrappers act on open_run / close_run: they must sit outside run_wrapper
    inner_ws = [w for w in order if w in ("stage", "lazy", "subs", "suspend")]
    outer_ws = [w for w in order if w in ("monitor", "fly")]
    for w in inner_ws:
        body = [wrap(w, body, pg)]
    body = [{"op": "wrap", "name": "run_wrapper", "kw": {"md": {"purpose": "c23"}}, "body": body}]
    for w in outer_ws:
        body = [wrap(w, body, pg)]
    case = {
        "prop": ID,
        "seed": seed,
        "sim": {"handle_cost": rng.choice([0.0, 1e-4])},
        "re": {},
        "devices": specs,
        "callbacks": {"c0": {}, "c1": {}},
        "suspenders": {"w0": {"cls": "SuspendBoolHigh", "signal": "sigS", "kwargs": {"sleep": 0}}},
        "wrappers": ["run"] + order,
        "script": [{"do": "call", "plan": body, "main": True}],
    }
    # (the fault-free case goes to the oracle first: if it does not even complete, the oracle says so)
    yield case
    dry = generic.run_case(case)
    dv = View(dry)
    if dry.aborted or dv.calls[0].outcome != "return":
        raise RuntimeError(f"generator contract broken: C23 base did not complete: {dv.calls[0].end.d if dv.calls else None}")
    n = dv.calls[0].end.d["steps"]
    K = 12 if tier == "quick" else 24
    for j in range(K):
        c = grammar.schedule(rng, case, dv, n)
        c["variant"] = j
        yield c


KNOWN_PREDICATES = {
    # D8: monitor_during_wrapper's 'monitor' message lost in flight -> its 'unmonitor' fails -> the undo chain breaks
    "monitor_lost_in_flight": lambda v, res: monitor_lost_in_flight(res),
}


def wrap(kind, body, pg):
    rng = pg.rng
    if kind == "stage":
        return {"op": "wrap", "name": "stage_wrapper", "args": [{"devs": pg.dets[:2] + pg.motors[:1]}], "body": body}
    if kind == "lazy":
        return {"op": "wrap", "name": "lazily_stage_wrapper", "body": body}
    if kind == "subs":
        return {"op": "wrap", "name": "subs_wrapper", "args": [{"all": [{"cb": "c0"}], "event": [{"cb": "c1"}]}], "body": body}
    if kind == "suspend":
        return {"op": "wrap", "name": "suspend_wrapper", "args": [[{"sus": "w0"}]], "body": body}
    if kind == "monitor":
        return {"op": "wrap", "name": "monitor_during_wrapper", "args": [{"devs": ["sig1"]}], "body": body}
    if kind == "fly":
        return {"op": "wrap", "name": "fly_during_wrapper", "args": [{"devs": pg.flyers[:1]}], "body": body}
    raise ValueError(kind)


def _engine_side_fault(evs):
    """Did a device method raise while the engine was calling it on its own account (pause/resume bookkeeping,
    clean-up) rather than executing a plan message?  Such a failure never reaches the plan: the engine closes the
    plans, so no wrapper gets the chance to undo anything."""
    cur = None
    for e in evs:
        if e.kind == "msg":
            cur = e.d["mid"]
        elif e.kind == "cmd" and e.d["mid"] == cur:
            cur = None
        elif e.kind == "dev" and e.d.get("fault") == "raise" and cur is None:
            return True
    return False


def _stage_rule(evs, strict_order):
    """Every device whose 'stage' message was executed is owed an 'unstage' message (reverse order)."""
    out = []
    msgs = [e for e in evs if e.kind == "msg"]
    cmds = {}
    for e in evs:
        if e.kind == "cmd":
            cmds.setdefault(e.d["mid"], []).append(e)
    staged, unstaged = [], []
    for m in msgs:
        if m.d["cmd"] == "stage" and m.d["obj"] not in staged and any(c.d["end"] == "ok" for c in cmds.get(m.d["mid"], [])):
            staged.append(m.d["obj"])
        elif m.d["cmd"] == "unstage" and m.d["obj"] not in unstaged:
            unstaged.append(m.d["obj"])
    missing = [d for d in staged if d not in unstaged]
    if missing:
        out.append(V("stage-without-unstage", f"staged {staged}, unstaged {unstaged}: the wrapper issued no unstage message for {missing}", missing=missing))
    elif strict_order and [d for d in unstaged if d in staged] != list(reversed(staged)):
        out.append(V("unstage-order", f"staged {staged}, unstaged {unstaged} (expected reverse order)"))
    # ... and *one* unstage for every stage: no device is unstaged more often than it was staged
    for d in unstaged:
        n_st = len({m.d["mid"] for m in msgs if m.d["cmd"] == "stage" and m.d["obj"] == d})
        n_un = len({m.d["mid"] for m in msgs if m.d["cmd"] == "unstage" and m.d["obj"] == d})
        if n_st and n_un > n_st:  # (a device the wrapper never got to stage is outside the statement)
            out.append(V("unstaged-more-often-than-staged", f"{d}: {n_st} 'stage' message(s) but {n_un} 'unstage' messages", dev=d))
            break
    return out


def check(res):
    out = []
    v = View(res)
    res.notes = {}
    if res.aborted:
        return out
    inv = v.invocations[0]
    evs = inv.events
    last = inv.calls[-1]
    if last.end is None or last.state != "idle":
        return out
    if not any(e.kind in ("inject_begin",) or (e.kind == "dev" and e.d.get("fault")) for e in evs) and last.outcome == "raise" and not res.case["script"][0].get("decisions"):
        # nothing was injected: a wrapped plan that is legal on its own completes under the wrappers too
        out.append(V("fault-free-plan-failed", f"no fault, no request, yet the call ended with {last.exc}: {last.end.d['text'][:160]}", exc=last.exc))
        return out
    halted = any(c.accepted("halt") for c in inv.calls) or any(c.api == "halt" for c in inv.calls)
    if halted:
        res.notes["halted_not_asserted"] = 1
        return out
    aborted = any(c.accepted("abort") for c in inv.calls) or any(c.api == "abort" for c in inv.calls)
    stopped = any(c.accepted("stop") for c in inv.calls) or any(c.api == "stop" for c in inv.calls)
    failure = next((c for c in inv.calls if c.outcome == "raise" and c.exc not in ("RunEngineInterrupted", "TransitionError")), None)
    has_fault = any((e.kind == "dev" and e.d.get("fault")) for e in evs)
    ncauses = int(aborted) + int(stopped) + int(failure is not None or has_fault)
    if any(e.kind == "plan" and e.d["what"] == "closed" for e in evs):
        # the engine closed the plan's generators (as a halt does): the plan's clean-up is skipped
        res.notes["plan_closed_by_engine_not_asserted"] = 1
        return out
    # The statement quantifies over the behaviour of the *wrapped plan*.  An interruption or failure that
    # lands while a wrapper is still installing things (before the wrapped plan yielded its first message),
    # or a device fault in a wrapper's own undo action, is outside it: counted, not asserted.
    first_inner = next((e.seq for e in evs if e.kind == "plan" and e.d["what"] == "yield"), None)
    first_cause = next(
        (
            e.seq
            for e in evs
            if (e.kind == "state" and e.d["new"] in ("stopping", "aborting"))
            or (e.kind == "cmd" and e.d["end"] == "error")
            or (e.kind == "status" and not e.d["ok"])
            # a device method the engine calls on its own account (restore_monitors at resume) raising
            or (e.kind == "dev" and e.d.get("fault") == "raise")
        ),
        None,
    )
    if first_cause is not None and (first_inner is None or first_cause < first_inner):
        res.notes["cause_before_wrapped_plan_started"] = 1
        if (
            "stage" in res.case["wrappers"]
            and not any(e.kind == "dev" and e.d.get("fault") and e.d["method"] == "unstage" for e in evs)
            and not _engine_side_fault(evs)
            and ncauses <= 1  # e.g. a stage fault plus an abort landing inside the wrapper's own undo: not asserted
        ):
            # stage_wrapper is the exception: it stages inside its own try/finally, so whatever it managed to stage
            # before the failure or interruption is still owed an 'unstage' message by the wrapper itself
            out.extend(_stage_rule(evs, strict_order=False))
        return out
    last_inner = max((e.seq for e in evs if e.kind == "plan"), default=None)
    if first_cause is not None and last_inner is not None and first_cause > last_inner:
        # the wrapped plan had already returned: the interruption hit the wrappers' own undo phase
        res.notes["cause_after_wrapped_plan_returned"] = 1
        return out
    if any(e.kind == "dev" and e.d.get("fault") and e.d["method"] in ("unstage", "clear_sub", "collect", "collect_pages", "complete", "describe_collect") for e in evs):
        res.notes["fault_in_wrapper_undo_action"] = 1
        return out
    if ncauses > 1 or sum(1 for e in evs if e.kind == "dev" and e.d.get("fault")) > 1:
        res.notes["ambiguous_two_causes"] = 1
        return out
    msgs = [e for e in evs if e.kind == "msg"]
    if first_cause is not None:
        inner_mids = {e.d["mid"] for e in evs if e.kind == "plan" and e.d["what"] == "yield"}
        # where the exception / interruption was delivered: the yield that was pending when it was thrown
        thrown = next((e.seq for e in evs if e.kind == "plan" and e.d["what"] == "thrown"), None)
        ref = max(first_cause, thrown) if thrown is not None else first_cause
        before = [m for m in msgs if m.seq < ref]
        if before and before[-1].d["mid"] not in inner_mids:
            # the interruption struck a message a wrapper had inserted itself (its response -- a token, the list
            # of staged devices -- is lost with it): the generator protocol cannot do better; the engine's own
            # clean-up (C06) covers it
            res.notes["cause_on_wrapper_inserted_message"] = 1
            return out
    cmds = {}
    for e in evs:
        if e.kind == "cmd":
            cmds.setdefault(e.d["mid"], []).append(e)

    def executed(m):
        return any(c.d["end"] in ("ok",) for c in cmds.get(m.d["mid"], []))

    # ---- run_wrapper
    opens = [m for m in msgs if m.d["cmd"] == "open_run" and executed(m)]
    closes = [m for m in msgs if m.d["cmd"] == "close_run"]
    # a replayed message is handed over again: count distinct Msg objects
    open_ids = {m.d["mid"] for m in opens}
    close_ids = {m.d["mid"] for m in closes}
    if len(close_ids) != len(open_ids):
        out.append(V("run-wrapper-close-count", f"{len(open_ids)} open_run executed, {len(close_ids)} close_run issued"))
    elif ncauses <= 1 and closes:
        es = closes[-1].d["kw"].get("exit_status")
        want = "fail" if failure is not None else "abort" if aborted else "success" if stopped else None
        if es != want:
            out.append(V("run-wrapper-exit-status", f"close_run(exit_status={es!r}), expected {want!r}", got=es, want=want))
        if failure is not None and closes[-1].d["kw"].get("reason") != failure.end.d["text"] and len(failure.end.d["text"]) < 290:
            out.append(V("run-wrapper-reason", f"close_run(reason={closes[-1].d['kw'].get('reason')!r}) vs error text {failure.end.d['text']!r}"))
    # ---- stage wrappers: every stage *message* the plan issued has its unstage message, reverse order
    staged = []
    for m in msgs:
        if m.d["cmd"] == "stage" and m.d["obj"] not in [x for x in staged]:
            staged.append(m.d["obj"])
    unstaged = []
    for m in msgs:
        if m.d["cmd"] == "unstage" and m.d["obj"] not in unstaged:
            unstaged.append(m.d["obj"])
    if "lazy" in res.case["wrappers"]:
        # ... and a device is staged once: no second 'stage' message while it is staged
        level = {}
        seen_mids = set()
        for m in msgs:
            if m.d["mid"] in seen_mids:
                continue
            seen_mids.add(m.d["mid"])
            if m.d["cmd"] == "stage":
                if level.get(m.d["obj"], 0) > 0:
                    out.append(V("staged-again-while-staged", f"{m.d['obj']}: a second 'stage' message while it is still staged", dev=m.d["obj"]))
                    break
                level[m.d["obj"]] = level.get(m.d["obj"], 0) + 1
            elif m.d["cmd"] == "unstage":
                level[m.d["obj"]] = max(0, level.get(m.d["obj"], 0) - 1)
    if "stage" in res.case["wrappers"] and "lazy" not in res.case["wrappers"]:
        # 'one unstage for every stage': a device is not unstaged more often than it was staged (two clean-ups, each
        # correct alone, undoing the same staging)
        for d in unstaged:
            n_st = len({m.d["mid"] for m in msgs if m.d["cmd"] == "stage" and m.d["obj"] == d})
            n_un = len({m.d["mid"] for m in msgs if m.d["cmd"] == "unstage" and m.d["obj"] == d})
            if n_st and n_un > n_st:
                out.append(V("unstaged-more-often-than-staged", f"{d}: {n_st} 'stage' message(s) but {n_un} 'unstage' messages", dev=d))
                break
    if "stage" in res.case["wrappers"] or "lazy" in res.case["wrappers"]:
        # a stage message that itself failed is not owed an unstage by stage_wrapper's first loop... it is:
        # both wrappers unstage everything they *attempted* to stage; assert for executed ones only
        ok_staged = [d for d in staged if any(m.d["cmd"] == "stage" and m.d["obj"] == d and executed(m) for m in msgs)]
        missing = [d for d in ok_staged if d not in unstaged]
        if missing:
            out.append(V("stage-without-unstage", f"staged {ok_staged}, unstaged {unstaged}: no unstage message for {missing}", missing=missing))
        elif ncauses == 0 and [d for d in unstaged if d in ok_staged] != list(reversed(ok_staged)):
            out.append(V("unstage-order", f"staged {ok_staged}, unstaged {unstaged} (expected reverse order)"))
    # ---- subs_wrapper
    if "subs" in res.case["wrappers"]:
        tokens = [c.d["value"] for m in msgs if m.d["cmd"] == "subscribe" for c in cmds.get(m.d["mid"], []) if c.d["end"] == "ok"]
        removed = [m.d["kw"].get("token", m.d["args"][0] if m.d["args"] else None) for m in msgs if m.d["cmd"] == "unsubscribe"]
        for t in set(tokens):
            if t not in removed:
                out.append(V("subscribe-without-unsubscribe", f"token {t} was never unsubscribed (tokens {tokens}, removed {removed})"))
    # ---- suspend_wrapper
    if "suspend" in res.case["wrappers"]:
        inst = [m for m in msgs if m.d["cmd"] == "install_suspender" and executed(m)]
        rem = [m for m in msgs if m.d["cmd"] == "remove_suspender"]
        if len({m.d["mid"] for m in rem}) < len({m.d["mid"] for m in inst}):
            out.append(V("install-without-remove", f"{len(inst)} install_suspender, {len(rem)} remove_suspender"))
    # ---- monitor_during / fly_during: undone before each close_run
    if closes:
        first_close = closes[0]
        if "monitor" in res.case["wrappers"]:
            mon = [m for m in msgs if m.d["cmd"] == "monitor" and executed(m)]
            unm = [m for m in msgs if m.d["cmd"] == "unmonitor" and m.seq < closes[-1].seq]
            if mon and not unm:
                out.append(V("monitor-without-unmonitor-before-close", "monitor_during_wrapper: no unmonitor before close_run"))
        if "fly" in res.case["wrappers"]:
            kick = [m for m in msgs if m.d["cmd"] == "kickoff" and executed(m)]
            comp = [m for m in msgs if m.d["cmd"] == "complete" and m.seq < closes[-1].seq]
            coll = [m for m in msgs if m.d["cmd"] == "collect" and m.seq < closes[-1].seq]
            if kick and (not comp or not coll):
                out.append(V("fly-without-complete-collect-before-close", f"fly_during_wrapper: kickoff executed, complete={len(comp)} collect={len(coll)} before close_run"))
    return out
