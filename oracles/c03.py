"""C03 - Pause/resume and suspend/release do not change the recorded data.

Differential oracle on the deterministic simulator: every case is run twice in the same process --
as given (1..3 interruptions, all of them resumed / released) and as its fault-free twin.  Devices are
deterministic: detector values are pure functions of the motors' positions, motors move in virtual
time and stop() freezes them part-way (so a rewind really has something to repair).
For every run (matched by opening order) and every stream except monitor streams and the
'interruptions' stream (asynchronous by nature): the map seq_num -> data of the *last* event emitted
with that seq_num, and RunStop.num_events, must equal the twin's; and every resume() must complete
without error.
"""

import copy

from sim import gen
from sim.dsl import msg
from sim.runner import run_case

from . import generic
from .common import V, View, docs_by_run, monitor_lost_in_flight, replayed_response_lost

ID = "C03"
TITLE = "Pause/resume and suspend/release do not change the recorded data"
QUICK = {"batches": 150, "wall": 50.0}
THOROUGH = {"batches": 4000, "wall": 900.0}

valid_case = generic.valid_case
SHRINK_PLAN = False  # dropping a checkpoint or a set would make the workload non-idempotent under replay


def builtin_plan(rng, specs):
    motors = gen.names(specs, "motor", "pmotor")
    dets = gen.names(specs, "det", "pdet")
    D = {"devs": [d for d in dets if rng.random() < 0.8] or dets[:1]}
    m1 = {"dev": motors[0]}
    n = rng.choice([2, 3, 4])
    a, b = rng.choice([(-1, 1), (0, 2), (1, -1)])
    kind = rng.choice(["count", "scan", "list_scan", "rel_scan", "grid_scan", "rel_grid_scan", "adaptive_scan", "tune_centroid", "scan"])
    if kind in ("grid_scan", "rel_grid_scan") and len(motors) < 2:
        kind = "scan"
    if kind == "count":
        return {"op": "plan", "name": "count", "args": [D], "kw": {"num": n, "delay": rng.choice([None, 0.1, 0])}}
    if kind in ("scan", "rel_scan"):
        return {"op": "plan", "name": kind, "args": [D, m1, a, b, n]}
    if kind == "list_scan":
        return {"op": "plan", "name": "list_scan", "args": [D, m1, [rng.choice([0.5, 1.0, -1.0, 2.0]) for _ in range(n)]]}
    if kind in ("grid_scan", "rel_grid_scan"):
        return {
            "op": "plan",
            "name": kind,
            "args": [D, m1, a, b, 2, {"dev": motors[1]}, 0, 1, rng.choice([2, 3])],
            "kw": {"snake_axes": rng.choice([True, False])},
        }
    det = D["devs"][0]
    field = specs[det].get("keys", [det])[0]
    if kind == "adaptive_scan":
        return {"op": "plan", "name": "adaptive_scan", "args": [D, field, m1, 0, 2, 0.2, 1.0, 1.0, rng.choice([True, False])]}
    return {"op": "plan", "name": "tune_centroid", "args": [D, field, m1, -1, 1, 0.5], "kw": {"num": 3}}


def cases(seed, tier):
    rng = gen.rng_for(ID, seed)
    specs = gen.gen_world(rng, motors=rng.choice([1, 2, 2]), flyers=0, p_async=0.3, pausable=0.3)
    for s in specs.values():
        if s["kind"] in ("motor", "pmotor"):
            s.setdefault("velocity", rng.choice([1.0, 5.0]))
    specs["sigS"] = {"kind": "signal", "initial": 0}
    pg = gen.PlanGen(rng, specs)
    if rng.random() < 0.55:
        body = [builtin_plan(rng, specs)]
        if rng.random() < 0.3:
            body.append(builtin_plan(rng, specs))
    else:
        # replay-idempotent points: a checkpoint and an explicit set of every motor before each reading
        pg.idempotent = True
        pg.nonrewind = rng.choice([0.0, 0.0, 0.4])  # some readings taken with rewinding switched off
        if rng.random() < 0.35:
            # two runs open at once (interleaved, or a snapshot run nested inside the other one)
            body = pg.generic(cleanup=0.3, runs=2, nested=1.0)
        else:
            body = pg.generic(cleanup=0.3)
        # monitors are excluded from the comparison but allowed in the workload
    case = {
        "prop": ID,
        "seed": seed,
        "sim": {"handle_cost": rng.choice([0.0, 0.0, 1e-4])},
        "re": {"record_interruptions": rng.random() < 0.3},
        "devices": specs,
        "suspenders": {"s0": {"cls": "SuspendBoolHigh", "signal": "sigS", "kwargs": {"sleep": rng.choice([0, 0.5, 2.0])}}},
        "script": [{"do": "install_suspender", "sus": "s0"}, {"do": "call", "plan": body, "main": True}],
    }
    # a second suspender on its own signal in some worlds (suspensions on top of each other), and signals that flap:
    # drawn from a stream of their own so that the rest of the case does not depend on them
    rng2 = gen.rng_for(ID, seed, "second-suspender")
    two = rng2.random() < 0.4
    if two:
        specs["sigT"] = {"kind": "signal", "initial": 0}
        case["suspenders"]["s1"] = {"cls": "SuspendBoolHigh", "signal": "sigT", "kwargs": {"sleep": rng2.choice([0, 0.5, 2.0])}}
        case["script"].insert(1, {"do": "install_suspender", "sus": "s1"})

    def trip_args(_rng):
        a = generic.trip_args(_rng)
        if two and rng2.random() < 0.5:
            a["signal"] = "sigT"
        if rng2.random() < 0.2:
            # (never twice in the same instant: one device thread delivers its updates one after the other)
            a["after"] = a["after"] or 0.05
            a["then"] = [[rng2.choice([0.05, 0.1, 0.4, 1.0]), 1], [rng2.choice([0.05, 0.2, 1.0]), 0]]
        return a

    dry, dv, n = generic.dry_run(case)
    ci = generic.main_index(case)
    K = 10 if tier == "quick" else 20
    kinds = ["pause", "pause", "trip"]
    # systematic part of the sweep: one pause at a stratified step, then random schedules
    for j in range(K):
        c = copy.deepcopy(case)
        c["variant"] = j
        if j < K // 2:
            step = (j * (n + 4)) // max(1, K // 2) + rng.randrange(0, max(1, (n + 4) // max(1, K // 2)))
            inj = [{"id": "i0", "at": {"step": step}, "do": rng.choice(kinds)}]
        else:
            inj = gen.gen_injections(rng, n, kinds=kinds, k=rng.choice([1, 2, 3]), slack=4)
        for i in inj:
            if i["do"] == "trip":
                i["args"] = trip_args(rng)
        c["script"][ci]["inject"] = inj
        decs = []
        for _ in range(6):
            d = {"do": "resume"}
            if rng.random() < 0.35:
                d["inject"] = gen.gen_injections(rng, n, kinds=kinds, k=1, slack=4)
                for i in d["inject"]:
                    if i["do"] == "trip":
                        i["args"] = trip_args(rng)
            decs.append(d)
        c["script"][ci]["decisions"] = decs
        c["script"][ci]["final"] = "resume"
        yield c
    # interruptions placed inside the state another run's close leaves behind: a pause or suspension landing on the
    # first replayable message of the outer plan after an inner run (its own run key) was closed
    ms = [e for e in dv.of("msg")]
    spots = []
    for i in range(len(ms) - 1):
        if ms[i].d["cmd"] == "close_run" and ms[i].d["run"] is not None:
            for k in (1, 2):
                if i + k < len(ms) and ms[i + k].d["cmd"] not in ("checkpoint", "close_run", "open_run"):
                    spots.append(ms[i + k].d["n"])
                else:
                    break
    for j, n_ in enumerate(spots[:3]):
        c = copy.deepcopy(case)
        c["variant"] = f"after-inner-close-{j}"
        kind = rng.choice(kinds)
        inj = {"id": "x0", "at": {"msg": n_, "plus": rng.choice([0, 1, 2])}, "do": kind}
        if kind == "trip":
            inj["args"] = trip_args(rng)
        c["script"][ci]["inject"] = [inj]
        c["script"][ci]["decisions"] = [{"do": "resume"}] * 3
        c["script"][ci]["final"] = "resume"
        yield c


def data_maps(events):
    """[(per-stream {seq_num: data}, num_events)] per run in opening order; async streams excluded."""
    runs, _ = docs_by_run(events)
    out = []
    for uid, docs in runs.items():
        desc = {}
        streams = {}
        stop = None
        for _, name, doc in docs:
            if name == "descriptor":
                desc[doc["uid"]] = doc
            elif name == "event":
                d = desc.get(doc["descriptor"])
                if d is None:
                    continue
                streams.setdefault(d["name"], {})[doc["seq_num"]] = doc["data"]
            elif name == "event_page":
                d = desc.get(doc["descriptor"])
                if d is None:
                    continue
                for i, sn in enumerate(doc["seq_num"]):
                    streams.setdefault(d["name"], {})[sn] = {k: v[i] for k, v in doc["data"].items()}
            elif name == "stop":
                stop = doc
        excluded = {"interruptions"}
        for d in desc.values():
            if d["name"].endswith("_monitor") or "monitor" in d["name"]:
                excluded.add(d["name"])
        ne = {k: v for k, v in (stop or {}).get("num_events", {}).items() if k not in excluded}
        out.append(({k: v for k, v in streams.items() if k not in excluded}, ne, (stop or {}).get("exit_status")))
    return out


def check(res):
    out = []
    v = View(res)
    res.notes = {}
    if res.aborted:
        return out
    accepted = [e for e in v.of("inject_end") if e.d["outcome"] in ("ok", "interrupted") and e.d["do"] in ("pause", "trip")]
    if not accepted:
        return out
    # every user call must end without error; the last one must return normally
    for c in v.calls:
        if c.outcome == "raise" and c.exc not in ("RunEngineInterrupted",):
            out.append(V("resume-failed:" + str(c.exc), f"{c.api} raised {c.exc}: {c.end.d['text'][:200]}", exc=c.exc))
    if out:
        return out
    last = v.calls[-1]
    if last.outcome != "return" or last.state != "idle":
        res.notes["still_paused_at_end"] = 1
        return out
    twin = run_case(gen.strip_faults({**res.case, "script": [{k: x for k, x in s.items() if k != "decisions"} for s in res.case["script"]]}))
    tv = View(twin)
    a = data_maps(v.evs)
    b = data_maps(tv.evs)
    if len(a) != len(b):
        out.append(V("run-count-differs", f"{len(a)} runs vs {len(b)} in the uninterrupted execution"))
        return out
    for i, ((sa, na, ea), (sb, nb, eb)) in enumerate(zip(a, b)):
        if na != nb:
            out.append(V("num-events-differ", f"run {i}: num_events {na} vs uninterrupted {nb}", got=na, want=nb))
        for stream in sorted(set(sa) | set(sb)):
            ma, mb = sa.get(stream, {}), sb.get(stream, {})
            if ma != mb:
                diff = sorted(k for k in set(ma) | set(mb) if ma.get(k) != mb.get(k))
                out.append(
                    V(
                        "data-differs",
                        f"run {i} stream {stream!r}: seq_nums {diff[:5]} differ: {[(k, ma.get(k), mb.get(k)) for k in diff[:2]]}",
                        stream=stream,
                    )
                )
    return out


def _d12(v, res):
    # D12: the plan consumed the None it got for a message that was cancelled in flight and replayed
    return v["cls"].split(":")[-1] in ("TypeError", "KeyError", "AttributeError", "IndexError") and v["cls"].startswith("resume-failed:") and bool(replayed_response_lost(res))


KNOWN_PREDICATES = {
    "replayed_response_lost": _d12,
    "monitor_lost_in_flight": lambda v, res: (v["cls"].startswith("resume-failed:IllegalMessageSequence") or v["cls"] in ("data-differs", "num-events-differ"))
    and monitor_lost_in_flight(res),
}
