"""C20 - Message mutators are transparent when they change nothing.

Differential on the deterministic simulator: the same generated host program is executed bare (that is the
case that is run) and wrapped in plan_mutator(p, lambda m: (None, None)) and in msg_mutator(p, lambda m: m)
(the twins), under the same case: same seed, the same device faults thrown at the same sites, the same
stop / abort / halt injections at the same loop handles, the same pause and rewind.
Oracle: identical message traces (command, object, args, kwargs, run key, and the identity of the Msg
objects: the mutators must pass the host's own objects through), identical plan-side logs (responses
received, exceptions seen at each yield, except/finally clauses entered, generator closed), identical
documents, identical outcome of RE(...) / resume() including the plan's return value, identical behaviour
when the engine closes the plan (halt).  Honest narrowing: the driver scripts are those the RunEngine
can produce under fault injection, not all conceivable send/throw/close scripts.
"""

import copy

from sim import gen
from sim.dsl import msg

from . import generic, grammar
from .common import V, View

ID = "C20"
TITLE = "Message mutators are transparent when they change nothing"
QUICK = {"batches": 150, "wall": 50.0}
THOROUGH = {"batches": 5000, "wall": 900.0}
SHRINK_PLAN = True


def cases(seed, tier):
    rng = gen.rng_for(ID, seed)
    specs = grammar.world(rng)
    pg = gen.PlanGen(rng, specs)
    host = grammar.gen_stmts(pg, n=rng.choice([2, 3, 4, 5]))
    if rng.random() < 0.5:
        S = pg.S
        host = [msg(S, "open_run")] + host + [msg(S, "close_run")]
    case = {
        "prop": ID,
        "seed": seed,
        "sim": {},
        "re": {"call_returns_result": True},
        "devices": specs,
        "script": [{"do": "call", "plan": host, "main": True}],
    }
    dry = generic.run_case(case)
    dv = View(dry)
    n = dv.calls[0].end.d["steps"] if dv.calls and dv.calls[0].end else 20
    yield case
    K = 12 if tier == "quick" else 24
    for j in range(K):
        c = grammar.schedule(rng, case, dv, n)
        c["variant"] = j
        yield c


def wrapped(case, name):
    c = copy.deepcopy(case)
    for s in c["script"]:
        if s["do"] == "call":
            s["plan"] = [{"op": "wrap", "name": name, "body": s["plan"]}]
    return c


def check(res):
    out = []
    if res.aborted:
        return out
    for name in ("plan_mutator_noop", "msg_mutator_identity"):
        out.extend(grammar.differential(res, wrapped(res.case, name), "not-transparent:" + name, f"bare vs {name}"))
    return out


def valid_case(case):
    return True
