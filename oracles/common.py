"""Structured views over a simulation history, shared by the per-property oracles."""

from __future__ import annotations

TRANSITIONS = {
    # frozen copy of RunEngineStateMachine.Meta.transitions (documented table)
    "idle": ["running", "panicked"],
    "running": ["idle", "pausing", "halting", "stopping", "aborting", "suspending", "panicked"],
    "pausing": ["paused", "idle", "halting", "aborting", "panicked"],
    "suspending": ["running", "halting", "aborting", "panicked"],
    "paused": ["idle", "running", "halting", "stopping", "aborting", "panicked"],
    "halting": ["idle", "panicked"],
    "stopping": ["idle", "panicked"],
    "aborting": ["idle", "panicked"],
    "panicked": [],
}

TERMINATORS = ("abort", "stop", "halt")


def V(cls, detail, **facts):
    return {"cls": cls, "detail": detail, "facts": facts}


class Ev:
    __slots__ = ("seq", "kind", "step", "t", "d")

    def __init__(self, e):
        self.seq, self.kind, self.step, self.t, self.d = e

    def __repr__(self):
        return f"Ev({self.seq},{self.kind},{self.d})"


class Call:
    """One blocking public call made by the user thread."""

    def __init__(self, begin):
        self.begin = begin
        self.end = None
        self.events = []  # everything recorded between begin and end (inclusive of nested injections)

    @property
    def api(self):
        return self.begin.d["api"]

    @property
    def outcome(self):
        return self.end.d["outcome"] if self.end else None

    @property
    def exc(self):
        return self.end.d["exc"] if self.end else None

    @property
    def state(self):
        return self.end.d["state"] if self.end else None

    def of(self, kind):
        return [e for e in self.events if e.kind == kind]

    @property
    def injections(self):
        """[(begin_ev, end_ev)] for injections that ran during this call."""
        out = []
        stack = []
        for e in self.events:
            if e.kind == "inject_begin":
                stack.append(e)
            elif e.kind == "inject_end" and stack:
                out.append((stack.pop(), e))
        return sorted(out, key=lambda p: p[0].seq)

    def accepted(self, *dos):
        return [(b, e) for b, e in self.injections if b.d["do"] in dos and e.d["outcome"] in ("ok", "interrupted")]


class Invocation:
    """From RE(plan) until the engine is idle again (may span resume/abort/... calls)."""

    def __init__(self):
        self.calls = []
        self.between = []  # events recorded between the calls of this invocation

    @property
    def events(self):
        evs = []
        for c in self.calls:
            evs.extend(c.events)
        evs.extend(self.between)
        evs.sort(key=lambda e: e.seq)
        return evs

    def of(self, kind):
        return [e for e in self.events if e.kind == kind]

    @property
    def final_state(self):
        return self.calls[-1].state if self.calls else None


class View:
    def __init__(self, res):
        self.res = res
        self.evs = [Ev(e) for e in res.history]
        self.calls = []
        self.invocations = []
        cur = None
        inv = None
        for e in self.evs:
            if e.kind == "call_begin":
                cur = Call(e)
                cur.events.append(e)
                self.calls.append(cur)
                if e.d["api"] == "call" or inv is None:
                    inv = Invocation()
                    self.invocations.append(inv)
                inv.calls.append(cur)
            elif e.kind == "call_end":
                if cur is not None:
                    cur.events.append(e)
                    cur.end = e
                    cur = None
            else:
                if cur is not None:
                    cur.events.append(e)
                elif inv is not None:
                    inv.between.append(e)

    def of(self, kind):
        return [e for e in self.evs if e.kind == kind]

    @property
    def aborted(self):
        return self.res.aborted


def docs_by_run(events):
    """Group doc events by run start uid, preserving order. Returns {uid: [(seq, name, doc)]}, orphans."""
    runs = {}
    desc_run = {}
    res_run = {}
    sres_run = {}
    orphans = []
    for e in events:
        if e.kind != "doc":
            continue
        name, doc = e.d["name"], e.d["doc"]
        uid = None
        if name == "start":
            uid = doc["uid"]
            runs.setdefault(uid, [])
        elif name in ("descriptor", "stop", "resource", "stream_resource"):
            uid = doc.get("run_start")
            if name == "descriptor":
                desc_run[doc["uid"]] = uid
            elif name == "resource":
                res_run[doc["uid"]] = uid
            elif name == "stream_resource":
                sres_run[doc["uid"]] = uid
        elif name in ("event", "event_page", "stream_datum"):
            uid = desc_run.get(doc.get("descriptor"))
        elif name in ("datum", "datum_page"):
            r = doc.get("resource")
            uid = res_run.get(r)
        if uid is None or uid not in runs:
            orphans.append(e)
        else:
            runs[uid].append((e.seq, name, doc))
    return runs, orphans


def resumable_model(msgs):
    """Observable model of resumability from the message trace: False after clear_checkpoint
    (for the rest of the call, as the code documents: the plan becomes un-resuming)."""
    out = []
    ok = True
    for m in msgs:
        out.append(ok)
        if m.d["cmd"] == "clear_checkpoint":
            ok = False
    return out


def replayed_response_lost(res):
    """Known finding D12: a pause/suspension cancelled a message in flight; the replay re-executed it and
    got a (non-None) response, but the plan's yield is answered with None.
    Returns the list of (mid, cmd) for which that happened in this history."""
    cancelled = {}
    out = []
    for e in res.history:
        if e[1] != "cmd":
            continue
        d = e[4]
        if d["end"] == "cancelled" and d.get("state") in ("pausing", "suspending"):
            cancelled[d["mid"]] = d["cmd"]
        elif d["end"] == "ok" and d["mid"] in cancelled and d.get("value") is not None:
            out.append((d["mid"], cancelled.pop(d["mid"])))
    return out


def monitor_lost_in_flight(res):
    """Known finding D8: a pause/suspension landed while an (uncacheable) 'monitor' message was still
    awaiting its describe/configuration caching: the message is neither completed nor replayed.
    True iff the history contains a 'monitor' message for a signal that never got the engine's
    callback subscribed before the engine left the 'running' state."""
    evs = res.history
    for i, e in enumerate(evs):
        if e[1] == "msg" and e[4]["cmd"] == "monitor":
            obj = e[4]["obj"]
            for f in evs[i + 1 :]:
                if f[1] == "dev" and f[4]["dev"] == obj and f[4]["method"] == "subscribe" and f[4].get("cb") == "RE.monitor":
                    break
                if f[1] == "msg":
                    break
                if f[1] == "state" and f[4]["new"] in ("pausing", "suspending"):
                    return True
    return False
