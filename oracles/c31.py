"""C31 - Installed suspenders gate plan start and removal releases waiters.

History machine over one engine: install / trip while idle / release (now or later in virtual time) /
remove while a plan is held (from another thread, at an arbitrary handle) / remove again / value changes
after removal, around and during plan execution.
Oracle:
  * a suspender that is installed and tripped when RE(plan) is called delays the plan: no plan message is
    processed before (the value that satisfies its resume condition, or its removal) + its `sleep`,
    in virtual time;
  * remove_suspender releases a suspension it holds: the plan proceeds (no caller stuck for ever);
  * after removal the signal holds no callback of the suspender, later values cause no request_suspend and
    do not change its state; removing it again raises nothing.
"""

import copy

from sim import gen
from sim.dsl import msg

from . import generic
from .common import V, View

ID = "C31"
TITLE = "Installed suspenders gate plan start and removal releases waiters"
QUICK = {"batches": 2000, "wall": 50.0}
THOROUGH = {"batches": 60000, "wall": 900.0}
SHRINK_PLAN = False
NO_SHRINK = True  # cases are a handful of steps; dropping a release would make a legitimate eternal wait


def cases(seed, tier):
    rng = gen.rng_for(ID, seed)
    specs = {"sigS": {"kind": "signal", "initial": 0}, "d1": {"kind": "det", "base": 1.0, "coef": {}, "trigger_delay": 0.05}}
    S = gen.SiteCounter()
    sleep = rng.choice([0, 0.5, 2.0, round(rng.uniform(0.0, 2.0), 2)])
    case = {
        "prop": ID,
        "seed": seed,
        "sim": {"handle_cost": rng.choice([0.0, 1e-4])},
        "re": {},
        "devices": specs,
        "suspenders": {"s0": {"cls": "SuspendBoolHigh", "signal": "sigS", "kwargs": {"sleep": sleep}}},
        "script": [{"do": "install_suspender", "sus": "s0"}],
    }
    if rng.random() < 0.15:
        # installed by a message of a plan (seen in the event-loop thread) while the signal is already high: the
        # suspender is tripped from the start and must hold the next plan until the release
        case["script"] = [{"do": "put", "signal": "sigS", "value": 1}]
        case["script"].append({"do": "call", "plan": [msg(S, "install_suspender", None, {"sus": "s0"}), msg(S, "null")], "tag": "install-by-message"})
        case["script"].append({"do": "put_later", "signal": "sigS", "value": 0, "delay": rng.choice([0.3, 1.0, 3.0])})
        body = [msg(S, "open_run"), msg(S, "checkpoint"), msg(S, "sleep", None, 0.5), msg(S, "checkpoint"), msg(S, "close_run")]
        case["script"].append({"do": "call", "plan": body, "main": True, "inject": []})
        yield case
        return
    if rng.random() < 0.12:
        # removed and installed again while the signal still sits in the suspend condition: the re-installed suspender
        # is shown the same value again and is tripped from the start
        case["script"] += [{"do": "put", "signal": "sigS", "value": 1}, {"do": "remove_suspender", "sus": "s0"}]
        if rng.random() < 0.5:
            case["script"].append({"do": "call", "plan": [msg(S, "null")], "tag": "between"})
        case["script"].append({"do": "install_suspender", "sus": "s0"})
        case["script"].append({"do": "put_later", "signal": "sigS", "value": 0, "delay": rng.choice([0.3, 1.0, 3.0])})
        body = [msg(S, "open_run"), msg(S, "checkpoint"), msg(S, "sleep", None, 0.5), msg(S, "checkpoint"), msg(S, "close_run")]
        case["script"].append({"do": "call", "plan": body, "main": True, "inject": []})
        yield case
        return
    ncalls = rng.choice([1, 2])
    removed = False
    for ci in range(ncalls):
        body = [msg(S, "open_run"), msg(S, "checkpoint")]
        for _ in range(4):  # long enough (>= 3.2 s) for every scheduled trip / removal to land inside the call
            body += [msg(S, "sleep", None, rng.choice([0.8, 1.0])), msg(S, "checkpoint")]
        body.append(msg(S, "close_run"))
        step = {"do": "call", "plan": body, "main": ci == 0, "inject": []}
        mode = rng.choice(["pretrip-release", "pretrip-remove", "pretrip-remove", "trip-during-remove", "clean"])
        if removed:
            mode = rng.choice(["clean", "values-after-removal"])
        if mode.startswith("pretrip"):
            case["script"].append({"do": "put", "signal": "sigS", "value": 1})
            if mode == "pretrip-release":
                case["script"].append({"do": "put_later", "signal": "sigS", "value": 0, "delay": rng.choice([0.0, 0.3, 3.0, round(rng.uniform(0.0, 3.4), 3)])})
            else:
                step["inject"].append({"id": "rm", "at": {"time": rng.choice([0.0, 0.2, 1.5, round(rng.uniform(0.0, 3.0), 3)])}, "do": "remove_suspender", "args": {"sus": "s0"}})
                removed = True
        elif mode == "trip-during-remove":
            step["inject"].append({"id": "tr", "at": {"time": rng.choice([0.05, 0.3, round(rng.uniform(0.0, 0.39), 3)])}, "do": "put", "args": {"signal": "sigS", "value": 1}})
            step["inject"].append({"id": "rm", "at": {"time": rng.choice([0.4, 1.0, 2.5, round(rng.uniform(0.4, 3.0), 3)])}, "do": "remove_suspender", "args": {"sus": "s0"}})
            removed = True
        elif mode == "values-after-removal":
            step["inject"].append({"id": "v1", "at": {"time": 0.1}, "do": "put", "args": {"signal": "sigS", "value": 1}})
            step["inject"].append({"id": "v0", "at": {"time": 0.3}, "do": "put", "args": {"signal": "sigS", "value": 0}})
        case["script"].append(step)
        if removed and rng.random() < 0.7:
            case["script"].append({"do": "remove_suspender", "sus": "s0"})  # removing again is harmless
        if removed and rng.random() < 0.7:
            case["script"].append({"do": "put", "signal": "sigS", "value": rng.choice([1, 0])})
        if not removed:
            # leave the signal low so that the next call is not held for ever by design
            case["script"].append({"do": "put", "signal": "sigS", "value": 0})
    yield case


def check(res):
    out = []
    v = View(res)
    res.notes = {}
    sleep = res.case["suspenders"]["s0"]["kwargs"].get("sleep", 0)
    if res.aborted:
        out.append(V("caller-stuck:" + res.aborted[0], f"the simulation could not finish: {res.aborted}"))
        return out
    evs = v.evs
    installed = False
    tripped = False
    release_t = None  # time at which the current trip's release condition was met
    removed_seq = None
    owed = 0  # trips seen while installed whose request_suspend may still be on its way
    for e in evs:
        if (e.kind == "user" and e.d["do"] == "install_suspender") or (e.kind == "msg" and e.d["cmd"] == "install_suspender"):
            installed = True
        elif e.kind == "sus_install" and e.d["value"]:
            # shown a suspending value on installation: tripped from the start
            if not tripped:
                release_t = None
            tripped = True
            installed = True
        elif e.kind == "user_error":
            out.append(V("remove-raised", f"remove_suspender raised {e.d['exc']}: {e.d['text']}"))
        elif (e.kind == "user" and e.d["do"] == "remove_suspender") or (e.kind == "inject_begin" and e.d["do"] == "remove_suspender"):
            if installed and tripped:
                release_t = e.t
            installed = False
            tripped = False
            removed_seq = e.seq
        elif e.kind == "sus":
            if not installed:
                out.append(V("removed-suspender-still-subscribed", f"a removed suspender was still called with value {e.d['value']!r}"))
                continue
            if e.d["value"]:
                if not tripped:
                    release_t = None
                    owed += 1
                tripped = True
            else:
                if tripped:
                    release_t = e.t
                tripped = False
        elif e.kind == "dev" and e.d["dev"] == "sigS" and e.d["method"] == "put" and not installed and removed_seq is not None:
            if e.d["nsubs"] != 0:
                out.append(V("subscription-left-after-removal", f"sigS has {e.d['nsubs']} subscriber(s) after the suspender was removed"))
        elif e.kind == "sus_request":
            # (a request queued by a trip that happened just before the removal may still be delivered)
            if owed > 0:
                owed -= 1
            elif not installed:
                out.append(V("request-after-removal", "request_suspend called by a removed suspender without a trip while it was installed"))
        elif e.kind == "call_begin" and e.d["api"] == "call":
            gate = installed and tripped
            # first plan message of this call
            call = next(c for c in v.calls if c.begin is e)
            msgs = [m for m in call.events if m.kind == "msg"]
            if gate:
                res.notes["gated_calls"] = res.notes.get("gated_calls", 0) + 1
                if not msgs or msgs[0].d["cmd"] != "wait_for":
                    out.append(V("tripped-suspender-did-not-gate", f"call started with a tripped suspender but its first message is {msgs[0].d['cmd'] if msgs else None}"))
        elif e.kind == "msg":
            pass
    # timing of gated calls: first plan message no earlier than release + sleep
    for c in v.calls:
        if c.api != "call":
            continue
        msgs = [m for m in c.events if m.kind == "msg"]
        if not msgs or msgs[0].d["cmd"] != "wait_for":
            continue
        first_plan = next((m for m in msgs[1:] if m.d["cmd"] not in ("wait_for",)), None)
        if first_plan is None:
            continue
        # the release that counts: the last event before first_plan that ended the trip
        rel = None
        trip = False
        inst = False
        for e in evs:
            if e.seq >= first_plan.seq:
                break
            if (e.kind == "user" and e.d["do"] == "install_suspender") or (e.kind == "msg" and e.d["cmd"] == "install_suspender"):
                inst = True
            elif e.kind == "sus_install" and e.d["value"]:
                inst = True
                if not trip:
                    rel = None
                trip = True
            elif (e.kind == "user" and e.d["do"] == "remove_suspender") or (e.kind == "inject_begin" and e.d["do"] == "remove_suspender"):
                if inst and trip:
                    rel = e.t
                inst, trip = False, False
            elif e.kind == "sus" and inst:
                if e.d["value"]:
                    if not trip:
                        rel = None
                    trip = True
                else:
                    if trip:
                        rel = e.t
                    trip = False
        if trip:
            out.append(V("plan-started-while-tripped", f"first plan message at t={first_plan.t} although the suspender is still tripped"))
        elif rel is not None and first_plan.t < rel + sleep - 1e-9:
            out.append(V("plan-started-before-release", f"first plan message at t={first_plan.t}, released at t={rel}, sleep={sleep}"))
    return out


def nontrivial(res):
    return True


def trace_key(res):
    """Distinct schedules: the script's steps with their virtual times (the message trace alone is the same plan)."""
    import hashlib

    c = res.case
    sk = []
    for st in c["script"]:
        sk.append((st["do"], st.get("value"), st.get("delay"), tuple((i["do"], i["at"].get("time")) for i in st.get("inject", []) or [])))
    s_ = repr((c["suspenders"]["s0"]["kwargs"].get("sleep"), c["sim"].get("handle_cost"), sk))
    return hashlib.sha256(s_.encode()).hexdigest()[:20]
