"""C45 - Collected stream assets line up with the stream's event numbering.

Workload: 1-3 simulated `WritesStreamAssets` detectors (sim/devices.py StreamDetector) whose frame index is a
function of *virtual time* (generated rates, stalls, frame totals; `get_index` optionally asynchronous, so the
index moves between the engine asking for it and using it), declared into one stream and collected repeatedly:
hand-written cadences (sleep dt_i; collect) and `collect_while_completing` with a generated flush period; one
detector alone (declared stream, with or without name=) or several together.  Interruptions at arbitrary
loop-handle boundaries: pause / deferred pause with resume (the rewind replays `collect` messages), suspensions,
and abort / stop / halt.
Oracle over the emitted documents, per run and stream:
 (a) for each stream resource the stream datums, in emission order, cover contiguous `indices` starting at 0 and
     contiguous `seq_nums` starting at 1 with seq_nums == indices + 1;
 (b) the stream datums emitted by one `collect` of several detectors all cover the same range, and it ends at
     the minimum of the indices the detectors reported to that collect;
 (c) RunStop.num_events[stream] equals the number of frames declared by the stream datums (of every data key);
 (d) no detector is credited more frames than it produced (device ledger).
"""

import copy

from sim import gen
from sim.dsl import SiteCounter, msg

from . import generic
from .common import V

ID = "C45"
TITLE = "Collected stream assets line up with the stream's event numbering"
QUICK = {"batches": 220, "wall": 50.0}
THOROUGH = {"batches": 6000, "wall": 900.0}

valid_case = generic.valid_case
STREAM = "fly"


def cases(seed, tier):
    rng = gen.rng_for(ID, seed)
    S = SiteCounter()
    n = rng.choice([1, 1, 2, 2, 3])
    frames = rng.choice([3, 6, 10])
    devices = {}
    for i in range(n):
        spec = {"kind": "streamdet", "rate": rng.choice([5.0, 10.0, 10.0, 20.0]), "frames": frames if rng.random() < 0.8 else rng.choice([3, 6, 10])}
        if rng.random() < 0.3:
            a = round(rng.random() * 0.5, 3)
            spec["stall"] = [[a, round(a + rng.choice([0.1, 0.5]), 3)]]
        if rng.random() < 0.4:
            spec["async"] = {"get_index": rng.choice([0.0, 0.01, 0.07])}
        if n == 1 and rng.random() < 0.4:
            # a detector without get_index(): legal when collected alone (the collect then has to name the stream)
            spec["kind"] = "lonestreamdet"
            spec.pop("async", None)
        devices[f"sd{i}"] = spec
    devices["sigS"] = {"kind": "signal", "initial": 0}
    dets = [f"sd{i}" for i in range(n)]
    named = n > 1 or devices["sd0"]["kind"] == "lonestreamdet" or rng.random() < 0.6
    coll_kw = {"name": STREAM} if named else {}

    def collect():
        return msg(S, "collect", dets[0], *[{"dev": d} for d in dets[1:]], **coll_kw)

    body = [msg(S, "stage", d) for d in dets]
    body.append(msg(S, "open_run"))
    body.append(msg(S, "declare_stream", None, *[{"dev": d} for d in dets], name=STREAM, collect=True))
    for d in dets:
        body.append(msg(S, "kickoff", d, group="kick"))
    body.append(msg(S, "wait", None, group="kick"))
    style = rng.choice(["manual", "manual", "cwc"])
    if style == "manual":
        for _ in range(rng.choice([0, 1, 2, 4])):
            if rng.random() < 0.7:
                body.append(msg(S, "checkpoint"))
            body.append(msg(S, "sleep", None, rng.choice([0.0, 0.05, 0.15, 0.4])))
            body.append(collect())
        for d in dets:
            body.append(msg(S, "complete", d, group="comp"))
        body.append(msg(S, "wait", None, group="comp"))
        body.append(collect())
        if rng.random() < 0.3:
            body.append(collect())  # nothing new: must not disturb the numbering
    else:
        body.append(msg(S, "checkpoint"))
        body.append(
            {
                "op": "stub",
                "name": "collect_while_completing",
                "args": [{"devs": dets}, {"devs": dets}],
                "kw": {"flush_period": rng.choice([0.05, 0.12, 0.3]), "stream_name": STREAM},
                "site": S(),
            }
        )
    body.append(msg(S, "close_run"))
    body += [msg(S, "unstage", d) for d in dets]
    base = {
        "prop": ID,
        "seed": seed,
        "sim": {"handle_cost": rng.choice([0.0, 0.0, 1e-4])},
        "re": {"record_interruptions": rng.random() < 0.3},
        "devices": devices,
        "suspenders": {},
        "script": [],
    }
    if rng.random() < 0.3:
        base["suspenders"]["s0"] = {"cls": "SuspendBoolHigh", "signal": "sigS", "kwargs": {"sleep": rng.choice([0, 0.2])}}
        base["script"].append({"do": "install_suspender", "sus": "s0"})
    base["script"].append({"do": "call", "plan": body, "main": True})
    base["script"].append({"do": "call", "plan": [msg(S, "null")], "tag": "followup-null"})
    retarget = generic.second_suspender(base, ID, seed, sleeps=(0, 0.2))
    try:
        dry, dv, nsteps = generic.dry_run(base)
    except RuntimeError:
        return
    yield base
    ci = generic.main_index(base)
    kinds = ["pause", "pause", "dpause", "abort", "stop", "halt"] + (["trip", "trip"] if base["suspenders"] else [])
    for j in range(10 if tier == "quick" else 16):
        c = copy.deepcopy(base)
        c["variant"] = j
        inj = gen.gen_injections(rng, nsteps, kinds=kinds, k=rng.choice([1, 1, 2, 3]))
        for i in inj:
            if i["do"] == "trip":
                i["args"] = retarget(generic.trip_args(rng))
        c["script"][ci]["inject"] = inj
        c["script"][ci]["decisions"] = [{"do": rng.choice(["resume", "resume", "resume", "abort", "stop"])} for _ in range(3)]
        c["script"][ci]["settle"] = "idle"
        yield c


def check(res):
    out = []
    if res.aborted:
        return out
    H = res.history
    # per run: stream resources / datums in emission order, with the collect window they were emitted in
    window = None
    nwin = 0
    sres = {}  # uid -> (run, data_key)
    datums = {}  # sres uid -> [(indices, seq_nums, window, descriptor)]
    desc_stream = {}
    stops = {}
    win_index = {}  # window -> [indices reported by get_index / collect_asset_docs]
    win_datums = {}
    produced = {}
    for e in H:
        k, d = e[1], e[4]
        if k == "msg" and d["cmd"] == "collect":
            nwin += 1
            window = nwin
        elif k == "cmd" and d["cmd"] == "collect":
            window = None
        elif k == "index" and window is not None:
            win_index.setdefault(window, []).append((d["dev"], d["index"]))
        elif k == "frames":
            produced[d["dev"]] = max(produced.get(d["dev"], 0), d["stop"])
        elif k == "doc":
            doc = d["doc"]
            if d["name"] == "descriptor":
                desc_stream[doc["uid"]] = (doc["run_start"], doc["name"])
            elif d["name"] == "stream_resource":
                sres[doc["uid"]] = (doc["run_start"], doc["data_key"])
            elif d["name"] == "stream_datum":
                datums.setdefault(doc["stream_resource"], []).append((doc["indices"], doc["seq_nums"], window, doc["descriptor"]))
                win_datums.setdefault(window, []).append((doc["stream_resource"], doc["indices"]))
            elif d["name"] == "stop":
                stops[doc["run_start"]] = doc
    totals = {}  # (run, stream) -> {data_key: frames}
    for uid, lst in datums.items():
        if uid not in sres:
            out.append(V("stream-datum-unknown-resource", f"stream datum refers to stream resource {uid[:8]} that was never emitted"))
            continue
        run, key = sres[uid]
        expect = 0
        for indices, seq_nums, w, desc in lst:
            if indices["start"] != expect or indices["stop"] < indices["start"]:
                out.append(V("indices-not-contiguous", f"{key}: stream datum covers indices {indices}; the previous one ended at {expect}", key=key))
            if seq_nums != {"start": indices["start"] + 1, "stop": indices["stop"] + 1}:
                out.append(V("seq-nums-out-of-step", f"{key}: stream datum indices {indices} carries seq_nums {seq_nums} (expected indices + 1)", key=key))
            expect = indices["stop"]
            stream = desc_stream.get(desc, (None, None))[1]
            totals.setdefault((run, stream), {})[key] = expect
        if out:
            return out
    # (b) detectors collected together
    for w, lst in win_datums.items():
        if w is None:
            # the engine's end-of-run backstop collects each still-uncollected device on its own
            res.sim.probe("stream-datum-from-backstop-collect")
            continue
        ranges = {(i["start"], i["stop"]) for _, i in lst}
        if len(ranges) > 1:
            out.append(V("together-but-different-ranges", f"collect #{w}: detectors collected together produced different ranges {sorted(ranges)}"))
        reported = [i for _, i in win_index.get(w, [])]
        ndev = len({dv for dv, _ in win_index.get(w, [])})
        if ndev > 1 and reported:
            stop = max(s for _, s in ranges)
            if stop != min(reported):
                out.append(V("not-advanced-to-minimum", f"collect #{w}: detectors reported indices {reported}; stream datums end at {stop}, expected {min(reported)}"))
    # (c) num_events
    for (run, stream), per_key in totals.items():
        if len(set(per_key.values())) > 1:
            out.append(V("keys-out-of-step", f"stream {stream!r}: data keys declare different frame totals {per_key}"))
        stop = stops.get(run)
        if stop is not None:
            n = (stop.get("num_events") or {}).get(stream, 0)
            if n != max(per_key.values()):
                out.append(V("num-events-differs", f"stream {stream!r}: RunStop.num_events is {n}; the stream datums declare {max(per_key.values())} frames", num_events=n, frames=max(per_key.values())))
    # (d) ledger
    for uid, lst in datums.items():
        if uid in sres:
            key = sres[uid][1]
            if lst and lst[-1][0]["stop"] > produced.get(key, 0):
                out.append(V("more-frames-than-produced", f"{key}: stream datums end at {lst[-1][0]['stop']}, the detector produced {produced.get(key, 0)}"))
    return out


def nontrivial(res):
    n = sum(1 for e in res.history if e[1] == "doc" and e[4]["name"] == "stream_datum")
    return n >= 2
