"""C19 - Callbacks see every document once, in order, and errors follow policy.

Workload: 2-4 recording callbacks subscribed (permanently, before the call) to assorted document kinds, some
scheduled to raise at their j-th document of a kind; both ignore_callback_exceptions settings; plans with
several runs, bundles and a monitored signal whose updates arrive from the device thread.
Oracle:
  * exceptions ignored -- each callback's log equals the emitted stream filtered to its kinds (once each, in
    emission order); for every document the callbacks are invoked in subscription order; the message trace
    equals that of the fault-free twin (a raising callback neither stops delivery to others nor the plan);
  * exceptions not ignored -- the first raise (on the plan's thread) ends the plan: RE(...) raises that
    CallbackError and every run that was open is closed with exit_status 'fail'.
Excluded from the 'ends the plan' half: exceptions raised while a monitor update is being emitted (that
happens on the device's thread and surfaces there).
"""

import copy

from sim import gen
from sim.dsl import msg
from sim.runner import run_case

from . import generic
from .common import V, View, docs_by_run

ID = "C19"
TITLE = "Callbacks see every document once, in order, and errors follow policy"
QUICK = {"batches": 250, "wall": 50.0}
THOROUGH = {"batches": 8000, "wall": 900.0}

SHRINK_PLAN = False
KINDS = ["all", "all", "event", "start", "stop", "descriptor"]
DOCKINDS = ["start", "descriptor", "event", "stop"]


def cases(seed, tier):
    rng = gen.rng_for(ID, seed)
    specs = gen.gen_world(rng, flyers=0, p_async=0.2)
    pg = gen.PlanGen(rng, specs)
    S = pg.S
    body = []
    for _ in range(rng.choice([1, 2])):
        body.extend(pg.run_block(npoints=rng.choice([2, 3]), monitor=0.3, fly=0.0, sleep=0.2))
        body.append(msg(S, "checkpoint"))
    ncb = rng.choice([2, 3, 4])
    case = {
        "prop": ID,
        "seed": seed,
        "sim": {},
        "re": {"ignore_callback_exceptions": rng.random() < 0.6},
        "devices": specs,
        "callbacks": {f"c{i}": {} for i in range(ncb)},
        "script": [],
    }
    if rng.random() < 0.25:
        # the subscribers are bound methods of recorder objects that compare equal to each other (value equality)
        for spec_ in case["callbacks"].values():
            spec_["bound_method"] = True
    subs = []
    for i in range(ncb):
        kind = rng.choice(KINDS)
        subs.append((f"c{i}", kind))
        case["script"].append({"do": "subscribe", "cb": f"c{i}", "name": kind, "token": f"p{i}"})
    case["script"].append({"do": "call", "plan": body, "main": True})
    yield case
    K = 8 if tier == "quick" else 16
    for j in range(K):
        c = copy.deepcopy(case)
        c["variant"] = j
        for _ in range(rng.choice([1, 1, 2])):
            cb, kind = rng.choice(subs)
            dk = rng.choice(DOCKINDS) if kind == "all" else kind
            c["callbacks"][cb].setdefault("raise_at", {}).setdefault(dk, []).append(rng.choice([0, 0, 1, 2]))
        if rng.random() < 0.4:
            c["script"][-1]["inject"] = [
                {"id": "u0", "at": {"step": rng.randrange(5, 80)}, "do": "put", "args": {"signal": "sig1", "value": 100 + j}}
            ]
        yield c


def check(res):
    out = []
    v = View(res)
    res.notes = {}
    if res.aborted:
        return out
    case = res.case
    ignore = bool(case["re"].get("ignore_callback_exceptions"))
    subs = [(s["cb"], s.get("name", "all")) for s in case["script"] if s["do"] == "subscribe"]
    inv = v.invocations[0]
    evs = inv.events
    # group: each doc followed by the cb events it caused
    docs = []
    for e in evs:
        if e.kind == "doc":
            docs.append((e, []))
        elif e.kind == "cb" and docs:
            docs[-1][1].append(e)
    raises = [e for e in evs if False]
    raised = res.sim.fault_counts.get("callback_raise", 0)
    if ignore or not raised:
        for d, cbs in docs:
            want = [cb for cb, name in subs if name == "all" or name == d.d["name"]]
            got = [c.d["cid"] for c in cbs]
            res.notes["documents_checked"] = res.notes.get("documents_checked", 0) + 1
            if got != want:
                out.append(
                    V(
                        "delivery-order-or-count",
                        f"{d.d['name']} document delivered to {got}, expected {want} (subscription order)",
                        got=got,
                        want=want,
                    )
                )
                break
        if raised:
            # the plan is unaffected: same message trace as without the raising callbacks
            twin = run_case(gen.strip_faults(case))
            a = [(m.d["cmd"], m.d["obj"]) for m in evs if m.kind == "msg"]
            b = [(m[4]["cmd"], m[4]["obj"]) for m in twin.history if m[1] == "msg"]
            if a != b:
                out.append(V("raising-callback-changed-the-plan", f"message trace differs from the fault-free twin ({len(a)} vs {len(b)} messages)"))
            last = inv.calls[-1]
            if last.outcome != "return":
                out.append(V("ignored-exception-ended-plan", f"RE(...) ended {last.outcome}/{last.exc} although callback exceptions are ignored"))
    else:
        last = inv.calls[-1]
        # was the first raise on the plan's thread (not inside a monitor emission from the device thread)?
        first = None
        for d, cbs in docs:
            for c in cbs:
                pass
        # find the first doc at which a scheduled raise fired: recompute from the schedule
        counts = {}
        fired = None
        for d, cbs in docs:
            for c in cbs:
                key = (c.d["cid"], d.d["name"])
                i = counts.get(key, 0)
                counts[key] = i + 1
                sched = case["callbacks"][c.d["cid"]].get("raise_at", {}).get(d.d["name"], [])
                if i in sched and fired is None:
                    fired = (d, c)
        if fired is None:
            return out
        d, c = fired
        in_put = any(b.kind == "inject_begin" and b.d["do"] == "put" and b.seq < d.seq and not any(x.kind == "inject_end" and b.seq < x.seq < d.seq for x in evs) for b in evs)
        if in_put:
            res.notes["raise_on_device_thread"] = 1
            return out
        if last.outcome != "raise" or last.exc != "CallbackError":
            out.append(V("callback-exception-not-raised", f"a callback raised (not ignored) but RE(...) ended {last.outcome}/{last.exc}: {last.end.d['text'][:120]}"))
            return out
        runs, _ = docs_by_run(evs)
        for uid, ds in runs.items():
            opened_before = ds and ds[0][0] <= d.seq
            stop = [x for _, n, x in ds if n == "stop"]
            if not stop:
                out.append(V("run-left-open", f"run {uid[:8]} has no RunStop after the callback failure"))
            elif opened_before and stop[0]["exit_status"] != "fail" and not any(s <= d.seq for s, n, _ in ds if n == "stop"):
                out.append(V("wrong-exit-status", f"run {uid[:8]} closed with {stop[0]['exit_status']!r} after a callback failure"))
    return out


def nontrivial(res):
    return bool(res.sim.fault_counts.get("callback_raise"))
