"""C12 - Device errors reach the plan at the message that caused them.

Workload: DSL plans in which device operations sit inside try/except blocks that log what they see and
then swallow, re-raise or let the error pass; exactly one injected device fault per case (strict on
single-fault schedules: the engine has one slot for pending status failures).
  * a device method that raises synchronously while message M (yielded at site k) is executed:
    the next thing the generator sees at site k is that exception, thrown at that yield;
  * a status created by message M (group g) that finishes unsuccessfully: FailedStatus (chained to the
    device's exception) is thrown at a yield from M's own up to and including the 'wait' on g, never later;
  * an error no handler of the plan catches is the exception RE(...) raises.
Not asserted: faults in operations the engine performs on its own behalf and deliberately swallows
(stop() during pause/cleanup, the clean-up unstage) and statuses of groups the plan never waits for.
"""

import copy

from sim import gen
from sim.dsl import msg

from . import generic
from .common import V, View

ID = "C12"
TITLE = "Device errors reach the plan at the message that caused them"
QUICK = {"batches": 150, "wall": 50.0}
THOROUGH = {"batches": 5000, "wall": 900.0}

valid_case = generic.valid_case
SHRINK_PLAN = False
DIRECT = {"set", "trigger", "read", "stage", "unstage", "kickoff", "complete", "collect", "collect_pages", "describe", "read_configuration", "describe_configuration", "describe_collect", "locate"}


def wrap_points(pg, body):
    """Wrap runs of plan statements in try/except blocks with logging handlers."""
    rng, S = pg.rng, pg.S
    out = []
    i = 0
    while i < len(body):
        n = rng.choice([1, 2, 3, 5])
        chunk = body[i : i + n]
        i += n
        r = rng.random()
        safe = all(c.get("cmd") not in ("open_run", "close_run", "create", "save", "drop", "read") for c in chunk if c.get("op") == "msg")
        if r < 0.35 and safe:
            out.append(
                {
                    "op": "try",
                    "site": S(),
                    "body": chunk,
                    "handlers": [{"exc": rng.choice(["Exception", "DeviceFault", "FailedStatus"]), "body": [msg(S, "null")], "reraise": rng.random() < 0.3}],
                }
            )
        elif r < 0.5:
            out.append({"op": "try", "site": S(), "body": chunk, "finally": [msg(S, "null")]})
        else:
            out.extend(chunk)
    return out


def cases(seed, tier):
    rng = gen.rng_for(ID, seed)
    specs = gen.gen_world(rng, flyers=rng.choice([0, 1]), p_async=0.3)
    pg = gen.PlanGen(rng, specs)
    inner = []
    devs = pg.dets[: rng.choice([1, 2])]
    for _ in range(rng.choice([2, 3])):
        inner.extend(pg.point(devices=devs, move=0.8))
    inner = wrap_points(pg, inner)
    S = pg.S
    body = [msg(S, "open_run")] + inner + [msg(S, "close_run")]
    body = pg.staged(body)
    case = {
        "prop": ID,
        "seed": seed,
        "sim": {"handle_cost": rng.choice([0.0, 0.0, 1e-4])},
        "re": {},
        "devices": specs,
        "script": [{"do": "call", "plan": body, "main": True}, {"do": "call", "plan": [msg(S, "null")], "tag": "followup-null"}],
    }
    dry, dv, n = generic.dry_run(case)
    K = 14 if tier == "quick" else 28
    for j in range(K):
        c = copy.deepcopy(case)
        c["variant"] = j
        generic.add_device_faults(rng, c, dv, k=1)
        yield c
    # a status that fails while the engine is paused (pause lands right after the operation was started, virtual
    # time passes during the pause, then resume): the failure still has to reach the plan by the wait on its group
    started = []  # (dev, method, occ, index of the message that made the call)
    cur = None
    for e in dv.evs:
        if e.kind == "msg":
            cur = e.d["n"]
        elif e.kind == "dev" and e.d["method"] in generic.STATUS_METHODS and "occ" in e.d and cur is not None:
            started.append((e.d["dev"], e.d["method"], e.d["occ"], cur))
    for j, (dev, meth, occ, n_) in enumerate(rng.sample(started, min(3, len(started)))):
        c = copy.deepcopy(case)
        c["variant"] = f"fail-while-paused-{j}"
        c["devices"][dev].setdefault("faults", {})[f"{meth}#{occ}"] = {"kind": "status_fail", "exc": "RuntimeError", "delay": rng.choice([0.2, 0.6])}
        c["script"][0]["inject"] = [{"id": "p", "at": {"msg": n_, "plus": rng.choice([1, 2, 3])}, "do": "pause"}]
        c["script"][0]["decisions"] = [{"do": "sleep", "t": 1.0}, {"do": "resume"}]
        yield c
    # a status that is still pending when a checkpoint is passed (its message is not replayed by a later rewind), a
    # pause and resume after that checkpoint, and only then - or during the pause - the failure: it reaches the plan
    # by the wait on its group all the same
    # (an exposure, not a move: the engine stops every moved device when it pauses, which finishes the move's status)
    if pg.dets:
        m = pg.dets[0]
        for j, delay in enumerate([0.2, 0.7, 1.2] if tier != "quick" else rng.sample([0.2, 0.7, 1.2], 2)):
            g = pg.group()
            plan = [
                msg(S, "checkpoint"),
                msg(S, "trigger", m, group=g),
                msg(S, "checkpoint"),
                msg(S, "null"),
                msg(S, "sleep", None, 0.3),
                msg(S, "null"),
                {"op": "try", "site": S(), "body": [msg(S, "wait", None, group=g)], "handlers": [{"exc": "FailedStatus", "body": [msg(S, "null")], "reraise": rng.random() < 0.5}]},
                msg(S, "null"),
            ]
            c = copy.deepcopy(case)
            c["variant"] = f"pending-across-checkpoint-then-pause-{j}"
            c["script"][0]["plan"] = plan
            for dev in c["devices"].values():
                dev.pop("faults", None)
            c["devices"][m]["trigger_delay"] = 5.0
            c["devices"][m]["faults"] = {"trigger#0": {"kind": "status_fail", "exc": "RuntimeError", "delay": delay}}
            c["script"][0]["inject"] = [{"id": "p", "at": {"msg": 4, "plus": rng.choice([0, 1])}, "do": "pause"}]
            c["script"][0]["decisions"] = [{"do": "sleep", "t": 0.5}, {"do": "resume"}]
            yield c
    # one status of a group fails while another status of the same group is still pending; the plan handles the
    # FailedStatus at the wait and waits for the rest of the group again (or a pause + resume replays the wait):
    # the failure is delivered once, at that wait, and nothing is thrown at a later site
    if pg.motors and pg.dets:
        m, d = pg.motors[0], pg.dets[0]
        g = pg.group()
        tgt = round(specs[m].get("initial", 0.0) + 3.0, 3)
        for j, variant in enumerate(["rewait", "rewait-pause", "pause"]):
            rewait = [msg(S, "wait", None, group=g), msg(S, "null")] if variant != "pause" else [msg(S, "null")]
            plan = [
                msg(S, "checkpoint"),
                msg(S, "set", m, tgt, group=g),
                msg(S, "trigger", d, group=g),
                {"op": "try", "site": S(), "body": [msg(S, "wait", None, group=g)], "handlers": [{"exc": "FailedStatus", "body": rewait, "reraise": False}]},
                msg(S, "null"),
                msg(S, "sleep", None, 0.1),
                msg(S, "null"),
            ]
            c = copy.deepcopy(case)
            c["variant"] = f"group-partly-failed-{variant}"
            c["script"][0]["plan"] = plan
            failing, slow = (m, d) if rng.random() < 0.5 else (d, m)
            for dev in (m, d):
                c["devices"][dev].pop("faults", None)
            c["devices"][d]["trigger_delay"] = 0.3
            c["devices"][m]["velocity"] = 5.0
            meth = "set" if failing == m else "trigger"
            c["devices"][failing].setdefault("faults", {})[f"{meth}#0"] = {"kind": "status_fail", "exc": "RuntimeError", "delay": rng.choice([0.0, 0.05])}
            if variant != "rewait":
                c["script"][0]["inject"] = [{"id": "p", "at": {"msg": 7 if variant == "pause" else 9, "plus": rng.choice([0, 1, 2])}, "do": "pause"}]
                c["script"][0]["decisions"] = [{"do": "resume"}]
            yield c
    # the plan has handled a failure and is busy with its recovery / clean-up when a pause and resume happen: the device
    # keeps failing (a persistent fault), but the failure that was delivered is not delivered again at whatever the
    # plan is doing now
    if pg.motors:
        m = pg.motors[0]
        for j in range(2):
            g = pg.group()
            handler = [msg(S, "null"), msg(S, "sleep", None, 0.3), msg(S, "null")]
            failing = [msg(S, "set", m, 4.0, group=g), msg(S, "wait", None, group=g)]
            if j == 1 and rng.random() < 0.5:
                # ... or a message the engine cannot execute at all (a command nobody registered): same rule
                failing = [msg(S, "no_such_command", m)]
            if rng.random() < 0.5:
                node = {"op": "try", "site": S(), "body": failing, "handlers": [{"exc": "Exception", "body": handler, "reraise": False}]}
            else:
                node = {"op": "try", "site": S(), "body": failing, "finally": handler}
            plan = [msg(S, "checkpoint"), msg(S, "null"), node, msg(S, "null")]
            c = copy.deepcopy(case)
            c["variant"] = f"handled-failure-then-pause-{j}"
            c["script"][0]["plan"] = plan
            for dev in c["devices"].values():
                dev.pop("faults", None)
            # (a synchronous failure: the message itself failed.  A status that fails later belongs to a message that
            # succeeded and is legitimately executed again by the replay - its new failure is a new one: not asserted)
            c["devices"][m]["faults"] = {"set#0+": {"kind": "raise", "exc": "RuntimeError"}}
            c["script"][0]["inject"] = [{"id": "p", "at": {"msg": rng.choice([4, 5, 6]), "plus": rng.choice([0, 1, 2])}, "do": "pause"}]
            c["script"][0]["decisions"] = [{"do": "resume"}]
            yield c
    # the plan is being stopped or aborted and its clean-up moves a device whose status then fails: the clean-up is a
    # plan like any other, the failure reaches it at the wait on that group
    if pg.motors:
        m = pg.motors[0]
        for j in range(2):
            g = pg.group()
            fin = [msg(S, "null"), msg(S, "set", m, 0.5, group=g), msg(S, "wait", None, group=g), msg(S, "null")]
            if rng.random() < 0.5:
                fin = [{"op": "try", "site": S(), "body": fin, "handlers": [{"exc": "FailedStatus", "body": [msg(S, "null")], "reraise": rng.random() < 0.4}]}]
            plan = [msg(S, "checkpoint"), msg(S, "null"), {"op": "try", "site": S(), "body": [msg(S, "sleep", None, 1.0), msg(S, "null")], "finally": fin}]
            c = copy.deepcopy(case)
            c["variant"] = f"failure-in-cleanup-after-terminator-{j}"
            c["script"][0]["plan"] = plan
            for dev in c["devices"].values():
                dev.pop("faults", None)
            c["devices"][m]["velocity"] = 1.0
            c["devices"][m]["faults"] = {"set#0": {"kind": "status_fail", "exc": "RuntimeError", "delay": rng.choice([0.0, 0.1])}}
            if rng.random() < 0.5:
                c["script"][0]["inject"] = [{"id": "t", "at": {"msg": 3, "plus": rng.choice([1, 2])}, "do": rng.choice(["stop", "abort"])}]
            else:
                c["script"][0]["inject"] = [{"id": "p", "at": {"msg": 3, "plus": rng.choice([1, 2])}, "do": "pause"}]
                c["script"][0]["decisions"] = [{"do": rng.choice(["stop", "abort"])}]
            yield c
    # a 'wait' that watches a second group: a status of the watched group fails, the plan handles the FailedStatus at
    # that wait and goes on; a later wait watches the same group again (the failed status is still in it).  Whatever
    # the engine makes of the old failure, what reaches the plan is a failure (or nothing), never a bare cancellation
    # that ends the call as an abort nobody asked for
    if pg.motors and pg.dets:
        m, d = pg.motors[0], pg.dets[0]
        for j in range(2):
            g, w, g2 = pg.group(), pg.group(), pg.group()
            first = {"op": "try", "site": S(), "body": [msg(S, "wait", None, group=g, watch=[w])], "handlers": [{"exc": "FailedStatus", "body": [msg(S, "null")], "reraise": False}]}
            second = msg(S, "wait", None, group=g2, watch=[w])
            if rng.random() < 0.5:
                second = {"op": "try", "site": S(), "body": [second], "handlers": [{"exc": rng.choice(["FailedStatus", "Exception"]), "body": [msg(S, "null")], "reraise": rng.random() < 0.3}]}
            plan = [msg(S, "open_run"), msg(S, "checkpoint"), msg(S, "set", m, 3.0, group=g), msg(S, "trigger", d, group=w), first, msg(S, "null")]
            if rng.random() < 0.5:
                plan.append(msg(S, "checkpoint"))
            plan += [msg(S, "set", m, 5.0, group=g2), second, msg(S, "null"), msg(S, "close_run")]
            c = copy.deepcopy(case)
            c["variant"] = f"watched-group-failed-{j}"
            c["script"][0]["plan"] = plan
            for dev in c["devices"].values():
                dev.pop("faults", None)
            c["devices"][m]["velocity"] = 2.0
            c["devices"][d]["faults"] = {"trigger#0": {"kind": "status_fail", "exc": "RuntimeError", "delay": rng.choice([0.0, 0.1])}}
            if rng.random() < 0.4:
                c["script"][0]["inject"] = [{"id": "p", "at": {"msg": rng.choice([6, 7, 8]), "plus": rng.choice([0, 1, 2])}, "do": "pause"}]
                c["script"][0]["decisions"] = [{"do": "resume"}]
            yield c
    # the messages that address several objects at once ('locate' a, b ...): one of the devices fails, synchronously
    # or after really awaiting; the error belongs to that yield like any other
    if len(pg.motors) >= 1:
        objs = (pg.motors + pg.dets)[:3]
        for j in range(3):
            failing = rng.choice([o for o in objs if specs[o]["kind"] in ("motor", "pmotor")])
            locate = msg(S, "locate", objs[0], *[{"dev": o} for o in objs[1:] if specs[o]["kind"] in ("motor", "pmotor")], **({"squeeze": False} if rng.random() < 0.4 else {}))
            handler = rng.choice([None, "Exception", "DeviceFault"])
            node = locate if handler is None else {"op": "try", "site": S(), "body": [locate], "handlers": [{"exc": handler, "body": [msg(S, "null")], "reraise": rng.random() < 0.3}]}
            g = pg.group()
            plan = [msg(S, "checkpoint"), msg(S, "null"), node, msg(S, "set", pg.motors[0], 5.0, group=g), msg(S, "wait", None, group=g), msg(S, "null")]
            c = copy.deepcopy(case)
            c["variant"] = f"multi-object-locate-{j}"
            c["script"][0]["plan"] = plan
            for dev in objs:
                c["devices"][dev].pop("faults", None)
                if specs[dev]["kind"] in ("motor", "pmotor") and rng.random() < 0.7:
                    c["devices"][dev].setdefault("async", {})["locate"] = rng.choice([0.0, 0.05])
            c["devices"][failing].setdefault("faults", {})["locate#0"] = {"kind": "raise", "exc": rng.choice(["RuntimeError", "ValueError"])}
            yield c


def check(res):
    out = []
    v = View(res)
    res.notes = {}
    if res.aborted:
        return out
    inv = v.invocations[0]
    evs = inv.events
    plan = [e for e in evs if e.kind == "plan"]
    yields = [e for e in plan if e.d["what"] == "yield"]
    ypos = {e.seq: i for i, e in enumerate(yields)}

    def next_plan_event_for(mid, after_seq):
        for e in plan:
            if e.seq > after_seq and e.d.get("mid") == mid and e.d["what"] in ("resp", "thrown", "closed"):
                return e
        return None

    if str(res.case.get("variant", "")).startswith("handled-failure-then-pause"):
        # one operation failed once in the plan's eyes (the device keeps failing, but the plan asked only once)
        thrown_all = [e for e in plan if e.d["what"] == "thrown" and str(e.d["exc"]).startswith(("Injected", "FailedStatus", "InvalidCommand"))]
        res.notes["handled_failure_then_pause"] = 1
        if len(thrown_all) > 1:
            x = thrown_all[1]
            out.append(
                V(
                    "failure-delivered-again-after-resume",
                    f"the failure the plan had already been given at site {thrown_all[0].d['site']} was thrown again ({x.d['exc']}) at site {x.d['site']} after the pause and resume",
                    exc=x.d["exc"],
                )
            )
        return out
    if str(res.case.get("variant", "")).startswith("watched-group-failed"):
        res.notes["watched_group_failed"] = 1
        last = inv.calls[-1]
        bare = [e for e in plan if e.d["what"] == "thrown" and e.d["exc"] == "CancelledError"]
        if bare:
            out.append(V("bare-cancellation-thrown-at-plan", f"no stop / abort / halt was requested, yet CancelledError was thrown into the plan at site {bare[0].d['site']} (a wait watching a group with an already reported failure); the call ended {last.outcome}/{last.exc}", site=bare[0].d["site"]))
            return out
        plan_done = any(e.d["what"] == "plan_done" for e in plan)
        if str(last.state) == "idle" and last.outcome == "return" and not plan_done:
            out.append(V("call-returned-but-plan-did-not-finish", f"RE(...) returned normally although the plan never ran to its end (last plan event {plan[-1].d if plan else None})"))
        return out
    faults = [e for e in evs if e.kind == "dev" and e.d.get("fault")]
    if len(faults) != 1:
        return out
    f = faults[0]
    # the message being executed when the fault fired
    m = None
    for e in evs:
        if e.seq > f.seq:
            break
        if e.kind == "msg":
            m = e
        elif e.kind == "cmd" and m is not None and e.d["mid"] == m.d["mid"]:
            m = None  # that command had already finished: the device call was made by the engine itself
    method = f.d["method"]
    if m is None or method not in DIRECT:
        res.notes["fault_in_engine_own_call"] = 1
        return out
    mid = m.d["mid"]
    y = next((e for e in yields if e.d["mid"] == mid and e.seq <= m.seq), None)
    if y is None:
        res.notes["fault_in_message_not_from_plan"] = 1
        return out
    last = inv.calls[-1]
    if f.d["fault"] == "raise":
        res.notes["sync_faults"] = 1
        nxt = next_plan_event_for(mid, m.seq)
        if nxt is None or nxt.d["what"] != "thrown" or not nxt.d["exc"].startswith("Injected"):
            out.append(
                V(
                    "sync-error-not-thrown-at-site",
                    f"{f.d['dev']}.{method} raised while executing {m.d['cmd']} (site {y.d['site']}); the generator next saw {nxt.d if nxt else None}",
                    method=method,
                    cmd=m.d["cmd"],
                )
            )
            return out
        thrown = nxt
    else:
        # status failure
        st = next((e for e in evs if e.kind == "status" and not e.d["ok"] and e.seq > f.seq), None)
        if st is None:
            return out
        res.notes["status_faults"] = 1
        group = m.d["kw"].get("group")
        wait = next((e for e in yields if e.seq > y.seq and e.d["cmd"] == "wait"), None)
        waits = [
            e
            for e in yields
            if e.seq > y.seq and e.d["cmd"] == "wait" and any(x.kind == "msg" and x.d["mid"] == e.d["mid"] and x.d["kw"].get("group") == group for x in evs)
        ]
        if not waits:
            res.notes["status_group_never_waited"] = 1
            return out
        w = waits[0]
        thrown = next((e for e in plan if e.d["what"] == "thrown" and e.d["exc"] == "FailedStatus" and e.seq > y.seq), None)
        if thrown is None:
            out.append(V("status-failure-not-delivered", f"{f.d['dev']}.{method} status failed (group {group}) but no FailedStatus was thrown into the plan", method=method))
            return out
        ty = next((e for e in reversed(yields) if e.seq < thrown.seq and e.d["mid"] == thrown.d["mid"]), None)
        if ty is None or not (ypos[y.seq] <= ypos[ty.seq] <= ypos[w.seq]):
            out.append(
                V(
                    "status-failure-delivered-late",
                    f"status of {m.d['cmd']}@{y.d['site']} failed; FailedStatus thrown at site {thrown.d['site']}, outside [{y.d['site']} .. wait@{w.d['site']}]",
                    method=method,
                )
            )
            return out
    # one failure is delivered once: nothing else is thrown into the plan (no terminating request is scheduled in
    # this workload), e.g. a stale failed status left in its group failing a later wait
    extra = [e for e in plan if e.d["what"] == "thrown" and e.seq != thrown.seq and not str(e.d["exc"]).startswith(("RequestStop", "RequestAbort"))]
    if extra:
        x = extra[0]
        out.append(
            V(
                "second-error-from-one-failure",
                f"one device failure ({f.d['dev']}.{method}, {f.d['fault']}) but the plan was also thrown {x.d['exc']} at site {x.d['site']}",
                method=method,
                exc=x.d["exc"],
            )
        )
        return out
    # unhandled => the call raises it
    handled =any(e.d["what"] == "except" and e.seq > thrown.seq for e in plan)
    plan_done = any(e.d["what"] == "plan_done" for e in plan)
    if not handled and not plan_done:
        want = "FailedStatus" if f.d["fault"] != "raise" else thrown.d["exc"]
        if last.outcome != "raise" or last.exc != want:
            out.append(V("unhandled-error-not-raised", f"the plan did not handle {want} but RE(...) ended {last.outcome}/{last.exc}", want=want, got=last.exc))
        elif want == "FailedStatus":
            cause = last.end.d.get("cause")
            if not cause or not cause["type"].startswith("Injected"):
                out.append(V("failedstatus-not-chained", f"FailedStatus.__cause__ is {cause}"))
    return out
