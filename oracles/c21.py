"""C21 - plan_mutator inserts head/tail messages exactly as documented.

Workload: generated host programs (grammar of C20) run under plan_mutator with a processor that, at chosen
host yield sites, returns (head, tail): head = generated messages followed (usually) by the original message
-- or replacing it --, tail = generated messages; under the same fault schedules as C20 (device faults on
host, head and tail messages; stop / abort / halt; pause + rewind).
Oracle, from the plan-side log, the processor log and the engine's per-command results:
  * the host receives, at the original yield, the response to head's *last* message (object identity);
  * tail's messages are processed immediately after head's last message and before the host's next one, and
    their responses never reach the host;
  * the processor is never called with a message that was inserted by it;
  * an exception raised while running a head or tail message reaches the host at the original yield site
    (the next thing the host sees there is that exception, or a later failure/interruption superseding it).
"""

import copy

from sim import gen
from sim.dsl import msg

from . import generic, grammar
from .common import V, View

ID = "C21"
TITLE = "plan_mutator inserts head/tail messages exactly as documented"
QUICK = {"batches": 150, "wall": 50.0}
THOROUGH = {"batches": 5000, "wall": 900.0}
SHRINK_PLAN = False


def inserted(pg, prefix, n):
    rng = pg.rng
    from sim.dsl import SiteCounter

    S = SiteCounter(prefix)
    out = []
    for _ in range(n):
        r = rng.random()
        if r < 0.5 or not pg.dets:
            out.append(msg(S, "null"))
        elif r < 0.75:
            g = pg.group()
            out += [msg(S, "trigger", rng.choice(pg.dets), group=g), msg(S, "wait", None, group=g)]
        else:
            out.append(msg(S, "sleep", None, 0.0))
    if out and rng.random() < 0.3:
        # an inserted plan that reacts to a failure of one of its messages by raising its own exception
        # (error translation): that exception, not the original one, is what the host must see
        out = [{"op": "try", "site": S(), "body": out, "handlers": [{"exc": "Exception", "body": [{"op": "raise", "exc": "PlanError", "site": prefix + "raise"}]}]}]
    return out


def sites_of(body):
    for n in body:
        if n.get("op") == "msg":
            yield n
        for k in ("body", "else", "finally"):
            if isinstance(n.get(k), list):
                yield from sites_of(n[k])
        for h in n.get("handlers", []) or []:
            yield from sites_of(h.get("body", []))


def cases(seed, tier):
    rng = gen.rng_for(ID, seed)
    specs = grammar.world(rng)
    pg = gen.PlanGen(rng, specs)
    pg.no_reuse = True  # plan_mutator processes a Msg *object* once: a host that yields the same object again is outside the statement
    host = grammar.gen_stmts(pg, n=rng.choice([2, 3, 4, 5]))
    nodes = [n for n in sites_of(host) if n["cmd"] in ("null", "set", "trigger", "sleep", "checkpoint", "wait")]
    if not nodes:
        return
    targets = [n["site"] for n in rng.sample(nodes, min(len(nodes), rng.choice([1, 1, 2])))]
    keep = rng.random() < 0.75
    spec = {
        "targets": targets,
        "keep": keep,
        "head": inserted(pg, "h", rng.choice([0, 1, 2])) if (rng.random() < 0.7 or not keep) else None,
        "tail": inserted(pg, "t", rng.choice([1, 2])) if rng.random() < 0.6 else None,
    }
    if not keep and not spec["head"]:
        spec["head"] = inserted(pg, "h", 1)
    case = {
        "prop": ID,
        "seed": seed,
        "sim": {},
        "re": {"call_returns_result": True},
        "devices": specs,
        "script": [{"do": "call", "plan": [{"op": "wrap", "name": "plan_mutator_insert", "spec": spec, "body": host}], "main": True, "spec": spec}],
    }
    dry = generic.run_case(case)
    dv = View(dry)
    n = dv.calls[0].end.d["steps"] if dv.calls and dv.calls[0].end else 20
    yield case
    K = 12 if tier == "quick" else 24
    for j in range(K):
        c = grammar.schedule(rng, case, dv, n)
        c["variant"] = j
        yield c


def check(res):
    out = []
    v = View(res)
    res.notes = {}
    if res.aborted:
        return out
    spec = res.case["script"][0]["spec"]
    targets = set(spec["targets"])
    keep = spec.get("keep", True)
    ctx = res.ctx
    evs = v.evs
    plan = [e for e in evs if e.kind == "plan"]
    # host yields at target sites, in order
    host_yields = [e for e in plan if e.d["what"] == "yield" and e.d.get("site") in targets]
    inserted_mids = set()
    for e in plan:
        if e.d["what"] == "yield" and str(e.d.get("site", "")).startswith(("h", "t")) and e.d.get("site") not in targets:
            s = str(e.d["site"])
            if s[0] in "ht" and s[1:].isdigit():
                inserted_mids.add(e.d["mid"])
    # (3) processor never sees inserted messages
    for e in plan:
        if e.d["what"] == "proc" and e.d["mid"] in inserted_mids:
            out.append(V("processor-called-on-inserted-message", f"processor called with inserted message #{e.d['mid']} ({e.d['cmd']})"))
    msgs = [e for e in evs if e.kind == "msg"]
    if any(e.kind == "call_begin" and e.d["api"] == "resume" for e in evs):
        # after a rewind the engine replays messages on its own, without consulting the mutator: the
        # structural assertions below are about what the mutator hands out, so they are made on the
        # schedules without a rewind (what a rewind does to responses is C13's topic)
        res.notes["rewound_cases_structural_checks_skipped"] = 1
        return out
    for hy in host_yields:
        res.notes["insertions"] = res.notes.get("insertions", 0) + 1
        # what the host saw next at that site
        nxt = next((p for p in plan if p.seq > hy.seq and p.d.get("mid") == hy.d["mid"] and p.d["what"] in ("resp", "thrown", "closed")), None)
        # messages processed between this host yield and the host's next own event
        upper = nxt.seq if nxt is not None else float("inf")
        between = [m for m in msgs if hy.seq < m.seq < upper]
        head_mids = [m.d["mid"] for m in between if _site(ctx, m).startswith("h")]
        tail_mids = [m.d["mid"] for m in between if _site(ctx, m).startswith("t")]
        own = [m for m in between if m.d["mid"] == hy.d["mid"]]
        if nxt is None:
            continue
        if nxt.d["what"] == "resp":
            # the response must be that of head's last message
            last_head_mid = hy.d["mid"] if keep else (head_mids[-1] if head_mids else None)
            if last_head_mid is None:
                continue
            done = [x for s, x in ctx.cmd_results.get(last_head_mid, []) if s < nxt.seq]
            got = next((r for site, mid, r, at in ctx.responses if mid == hy.d["mid"] and at == nxt.seq), None)
            rec = [r for site, mid, r, at in ctx.responses if mid == hy.d["mid"]]
            if done and rec and not any(rec[-1] is x or (rec[-1] == x and isinstance(x, (str, int, float, bool, type(None)))) for x in done):
                out.append(V("host-got-wrong-response", f"site {hy.d['site']}: host was sent {rec[-1]!r}, head's last message #{last_head_mid} answered {done[-1]!r}"))
            # tail ran completely before the host went on, in order, right after head
            if spec.get("tail") is not None:
                want_tail = len(list(sites_of(spec["tail"])))
                if len(tail_mids) != want_tail:
                    out.append(V("tail-not-run-before-host-continues", f"site {hy.d['site']}: {len(tail_mids)} of {want_tail} tail messages ran before the host got its response"))
            if keep and not own:
                out.append(V("original-message-not-run", f"site {hy.d['site']}: the original message was not executed although head re-yields it"))
            order = [("h" if m.d["mid"] in head_mids else "t" if m.d["mid"] in tail_mids else "o") for m in between]
            if "t" in order and ("h" in order[order.index("t") :] or "o" in order[order.index("t") :]):
                out.append(V("tail-before-head-finished", f"site {hy.d['site']}: processing order {''.join(order)}"))
        elif nxt.d["what"] == "thrown":
            res.notes["thrown_at_original_site"] = res.notes.get("thrown_at_original_site", 0) + 1
    # (4) an exception raised by a head/tail message must surface at the original yield, never at a head/tail site only
    for e in evs:
        if e.kind == "cmd" and e.d["end"] == "error" and e.d["mid"] in inserted_mids:
            # find the enclosing host yield
            hy = next((h for h in reversed(host_yields) if h.seq < e.seq), None)
            if hy is None:
                continue
            nxt = next((p for p in plan if p.seq > e.seq and p.d.get("mid") == hy.d["mid"] and p.d["what"] in ("resp", "thrown", "closed")), None)
            if nxt is not None and nxt.d["what"] == "resp":
                out.append(V("inserted-message-error-swallowed", f"message #{e.d['mid']} inserted at {hy.d['site']} failed with {e.d.get('exc')} but the host received a normal response"))
    # (5) an inserted plan that answers a failure with an exception of its own: the host sees that one
    for e in plan:
        if e.d["what"] == "raise" and str(e.d.get("site", "")) in ("hraise", "traise"):
            hy = next((h for h in reversed(host_yields) if h.seq < e.seq), None)
            if hy is None:
                continue
            nxt = next((p for p in plan if p.seq > e.seq and p.d.get("mid") == hy.d["mid"] and p.d["what"] in ("resp", "thrown", "closed")), None)
            if nxt is None or nxt.d["what"] == "closed":
                continue
            if nxt.d["what"] == "resp":
                out.append(V("inserted-plan-exception-swallowed", f"the plan inserted at {hy.d['site']} raised PlanError but the host received a normal response"))
            elif nxt.d.get("exc") not in ("PlanError", "RequestAbort", "RequestStop", "FailedPause", "PlanHalt"):
                out.append(V("inserted-plan-exception-replaced", f"the plan inserted at {hy.d['site']} answered a failure by raising PlanError, but the host was thrown {nxt.d.get('exc')} at that yield"))
    return out


def _site(ctx, m):
    return str(ctx.site_of.get(m.d["mid"], ""))
