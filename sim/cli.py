"""Command line entry: ./check <ID> [--tier quick|thorough] [--seed N] [--replay FILE]"""

import argparse
import json
import os
import sys

ROOT = os.path.dirname(os.path.dirname(os.path.abspath(__file__)))
if ROOT not in sys.path:
    sys.path.insert(0, ROOT)


def main(argv=None):
    ap = argparse.ArgumentParser()
    ap.add_argument("pid")
    ap.add_argument("--tier", default=os.environ.get("VERIF_TIER", "quick"))
    ap.add_argument("--seed", type=int, default=None)
    ap.add_argument("--replay", default=None)
    ap.add_argument("--workers", type=int, default=None)
    ap.add_argument("--budget", type=float, default=None)
    ap.add_argument("--batches", type=int, default=None)
    ap.add_argument("--no-evidence", action="store_true")
    ap.add_argument("--dump", action="store_true", help="with --replay: print the history")
    a = ap.parse_args(argv)
    sys.setrecursionlimit(10000)
    from sim import framework

    pid = a.pid.upper()
    if pid == "SELFTEST":
        from sim import selftest

        return selftest.main(a)
    if a.replay:
        res, viols, hits, want = framework.replay(pid, a.replay)
        same = "same" if want.get("digest") in (None, res.digest()) else f"DIFFERENT(got {res.digest()} want {want.get('digest')})"
        if a.dump:
            for e in res.history:
                print(json.dumps(e, default=repr)[:400])
        if hits:
            print(f"VIOLATION property={pid} replay={a.replay}")
            for v in hits:
                print(f"  class={v['cls']} detail={v['detail'][:400]} digest={same}")
            return 1
        print(f"[{pid}] replay {a.replay}: no violation of the recorded class reproduced ({len(viols)} other) digest={same}")
        return 0
    seed = a.seed if a.seed is not None else int(os.environ.get("VERIF_SEED", "0") or 0)
    tier = a.tier if a.tier in ("quick", "thorough") else "quick"
    return framework.run_check(pid, tier=tier, seed=seed, workers=a.workers, budget=a.budget, batches=a.batches, evidence=not a.no_evidence)


if __name__ == "__main__":
    sys.exit(main())
