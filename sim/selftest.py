"""Determinism self-test: the same seed must give the same event log, byte for byte,
 (1) twice in one process (with other cases run in between),
 (2) in a fresh interpreter under a different PYTHONHASHSEED,
 (3) in pool workers (different process, different address-space layout, different worker count).
Exit 0 only if every digest agrees."""

from __future__ import annotations

import concurrent.futures as cf
import importlib
import json
import multiprocessing
import os
import subprocess
import sys
import time

ROOT = os.path.dirname(os.path.dirname(os.path.abspath(__file__)))


def available():
    out = []
    for f in sorted(os.listdir(os.path.join(ROOT, "oracles"))):
        if f.startswith("c") and f[1:3].isdigit() and f.endswith(".py"):
            out.append(f[:-3].upper())
    return out


def digests_for(pid, seed, tier="quick"):
    from sim.runner import run_case

    mod = importlib.import_module(f"oracles.{pid.lower()}")
    out = []
    for case in mod.cases(seed, tier):
        case = json.loads(json.dumps(case, sort_keys=True))
        res = getattr(mod, "run_case", run_case)(case)
        out.append(res.digest())
    return out


def _job(args):
    pid, seed = args
    try:
        return pid, seed, digests_for(pid, seed)
    except Exception as e:  # generator contract errors are reported by the checks themselves
        return pid, seed, ["ERR:" + type(e).__name__]


def compute(pids, seeds):
    return {f"{p}:{s}": digests_for_safe(p, s) for p in pids for s in seeds}


def digests_for_safe(p, s):
    try:
        return digests_for(p, s)
    except Exception as e:
        return ["ERR:" + type(e).__name__]


def main(a):
    t0 = time.perf_counter()
    pids = available()
    n = a.batches or 3
    base = a.seed or 0
    seeds = [base * 7919 + i for i in range(n)]
    if os.environ.get("VERIF_SELFTEST_EMIT"):
        print("DIGESTS " + json.dumps(compute(pids, seeds), sort_keys=True))
        return 0
    first = compute(pids, seeds)
    second = compute(pids, seeds)  # same process, after everything else ran in between
    bad = []
    for k in first:
        if first[k] != second[k]:
            bad.append(("same-process", k))
    # fresh interpreter, different hash seed
    env = dict(os.environ, PYTHONHASHSEED="1", VERIF_SELFTEST_EMIT="1")
    p = subprocess.run(
        [sys.executable, os.path.join(ROOT, "sim", "cli.py"), "SELFTEST", "--batches", str(n), "--seed", str(base)],
        capture_output=True,
        text=True,
        env=env,
        timeout=1200,
    )
    fresh = None
    for line in p.stdout.splitlines():
        if line.startswith("DIGESTS "):
            fresh = json.loads(line[8:])
    if fresh is None:
        print("selftest: fresh interpreter produced no digests", p.stderr[-2000:])
        return 2
    for k in first:
        if first[k] != fresh.get(k):
            bad.append(("fresh-interpreter-hashseed1", k))
    # pool workers, two worker counts
    ctx = multiprocessing.get_context("fork")
    for w in (3, min(16, os.cpu_count() or 4)):
        with cf.ProcessPoolExecutor(max_workers=w, mp_context=ctx) as ex:
            for pid, seed, d in ex.map(_job, [(p_, s) for p_ in pids for s in seeds]):
                if first[f"{pid}:{seed}"] != d:
                    bad.append((f"pool-{w}", f"{pid}:{seed}"))
    ncases = sum(len(v) for v in first.values())
    errs = [k for k, v in first.items() if v and str(v[0]).startswith("ERR:")]
    print(
        f"[selftest] properties={len(pids)} batch seeds={seeds} cases={ncases} compared 5 ways "
        f"(in-process x2, fresh interpreter PYTHONHASHSEED=1, pool x3, pool x16): mismatches={len(bad)} "
        f"generator-errors={len(errs)} wall={time.perf_counter() - t0:.1f}s"
    )
    for b in bad[:10]:
        print("NONDETERMINISM:", b)
    return 1 if bad else 0
