"""Seeded generators: worlds (device specs), plans (DSL ASTs), injection schedules.

Everything here is a pure function of the `random.Random` passed in.
"""

from __future__ import annotations

import copy
import random

from .dsl import SiteCounter, msg


def rng_for(pid, seed, salt=""):
    return random.Random(f"{pid}|{seed}|{salt}")


# --------------------------------------------------------------------------------------
# worlds

ASYNCABLE = {
    "motor": ["read", "describe", "read_configuration", "describe_configuration", "stop", "locate"],
    "pmotor": ["read", "describe", "read_configuration", "describe_configuration", "stop", "pause", "resume"],
    "det": ["read", "describe", "read_configuration", "describe_configuration"],
    "pdet": ["read", "describe", "read_configuration", "describe_configuration", "pause", "resume"],
    "signal": ["describe"],  # a monitored signal must have a synchronous read()
    "flyer": ["describe_collect"],
}


def gen_world(rng, *, motors=None, dets=None, signals=1, flyers=0, p_async=0.3, pausable=0.2, velocity=True):
    specs = {}
    nm = rng.choice([1, 1, 2]) if motors is None else motors
    nd = rng.choice([1, 2, 2]) if dets is None else dets
    for i in range(nm):
        kind = "pmotor" if rng.random() < pausable else "motor"
        s = {"kind": kind, "initial": rng.choice([0.0, 1.5, -2.0])}
        if velocity and rng.random() < 0.7:
            s["velocity"] = rng.choice([1.0, 5.0, 0.5])
        specs[f"m{i + 1}"] = s
    for i in range(nd):
        kind = "pdet" if rng.random() < pausable else "det"
        s = {"kind": kind, "base": float(i + 1), "trigger_delay": rng.choice([0.0, 0.01, 0.3])}
        s["coef"] = {f"m{j + 1}": rng.choice([1.0, 2.0, -0.5]) for j in range(nm)}
        if i == 1 and rng.random() < 0.5:
            s["keys"] = [f"d{i + 1}_a", f"d{i + 1}_b"]
        specs[f"d{i + 1}"] = s
    for i in range(signals):
        specs[f"sig{i + 1}"] = {"kind": "signal", "initial": 0}
    for i in range(flyers):
        specs[f"f{i + 1}"] = {"kind": rng.choice(["flyer", "pageflyer"]), "events": rng.choice([1, 2, 3])}
    if p_async > 0:
        for name, s in specs.items():
            for meth in ASYNCABLE.get(s["kind"], []):
                if rng.random() < p_async * 0.5:
                    s.setdefault("async", {})[meth] = rng.choice([0.0, 0.0, 0.05])
    return specs


def names(specs, *kinds):
    return [n for n, s in specs.items() if s["kind"] in kinds]


# --------------------------------------------------------------------------------------
# plans


class PlanGen:
    """Generates legal message sequences (they run to completion fault-free)."""

    def __init__(self, rng, specs, *, sites=None):
        self.rng = rng
        self.specs = specs
        self.S = sites or SiteCounter()
        self.motors = names(specs, "motor", "pmotor")
        self.dets = names(specs, "det", "pdet")
        self.signals = names(specs, "signal")
        self.flyers = names(specs, "flyer", "pageflyer")
        self._grp = 0
        self._target = {m: specs[m].get("initial", 0.0) for m in self.motors}

    def group(self):
        self._grp += 1
        return f"g{self._grp}"

    def point(self, run=None, stream="primary", checkpoint=0.85, move=0.6, devices=None, also_read=None, drop=0.08):
        rng, S = self.rng, self.S
        body = []
        idem = getattr(self, "idempotent", False)
        if (idem and checkpoint > 0) or rng.random() < checkpoint:
            body.append(msg(S, "checkpoint"))
        if self.motors and (idem or rng.random() < move):
            g = self.group()
            for m in self.motors:
                if idem or rng.random() < 0.7:
                    self._target[m] = round(self._target[m] + rng.choice([1.0, -1.0, 2.0, 0.5]), 3)
                    body.append(msg(S, "set", m, self._target[m], group=g))
            if getattr(self, "watch", 0.0) and self.dets and rng.random() < self.watch:
                # wait for the move while watching a second group (a failure there ends the wait early); the watched
                # group usually finishes first
                ga = self.group()
                body.append(msg(S, "trigger", self.dets[0], group=ga))
                body.append(msg(S, "wait", None, group=g, watch=[ga]))
                body.append(msg(S, "wait", None, group=ga))
            else:
                body.append(msg(S, "wait", None, group=g))
        devs = devices if devices is not None else [d for d in self.dets if rng.random() < 0.8] or self.dets[:1]
        # the reading of a detector that cannot be replayed (trigger_and_read with rewindable=False): taken with
        # rewinding switched off, then something replayable follows before the next checkpoint
        nonrewind = bool(getattr(self, "nonrewind", 0.0)) and rng.random() < self.nonrewind
        if nonrewind:
            body.append(msg(S, "rewindable", None, False))
        if devs:
            g = self.group()
            for d in devs:
                body.append(msg(S, "trigger", d, group=g))
            body.append(msg(S, "wait", None, group=g))
        body.append(msg(S, "create", None, name=stream, run=run))
        for d in devs:
            body.append(msg(S, "read", d, run=run))
        if also_read is not None:
            for m in also_read:
                body.append(msg(S, "read", m, run=run))
        elif devices is None:
            for m in self.motors:
                if rng.random() < 0.5:
                    body.append(msg(S, "read", m, run=run))
        if rng.random() < drop:
            body.append(msg(S, "drop", None, run=run))
        else:
            body.append(msg(S, "save", None, run=run))
        if nonrewind:
            body.append(msg(S, "rewindable", None, True))
            body.append(msg(S, "sleep", None, rng.choice([0.05, 0.2])))
            body.append(msg(S, "null"))
        return body

    def run_block(self, run=None, npoints=None, monitor=0.25, fly=0.3, sleep=0.2, md=None, fixed_devices=True, checkpoint=0.85):
        rng, S = self.rng, self.S
        body = [msg(S, "open_run", None, run=run, **(md or {}))]
        mon = None
        if self.signals and rng.random() < monitor:
            mon = rng.choice(self.signals)
            mkw = rng.choice([{"event_type": "value"}, {"event_type": "status"}, {"min_period": 0.5}]) if getattr(self, "monitor_opts", 0.0) and rng.random() < self.monitor_opts else {}
            body.append(msg(S, "monitor", mon, run=run, name=f"{mon}_monitor", **mkw))  # extra kwargs go to obj.subscribe()
        fl = None
        if self.flyers and rng.random() < fly:
            fl = rng.choice(self.flyers)
            g = self.group()
            body.append(msg(S, "kickoff", fl, run=run, group=g))
            body.append(msg(S, "wait", None, group=g))
        n = npoints if npoints is not None else rng.choice([1, 2, 2, 3])
        # within one stream the set of devices read must stay the same
        devs = [d for d in self.dets if rng.random() < 0.8] or self.dets[:1]
        extra = [m for m in self.motors if rng.random() < 0.5]
        for _ in range(n):
            if fixed_devices:
                body.extend(self.point(run=run, devices=devs, also_read=extra, checkpoint=checkpoint))
            else:
                body.extend(self.point(run=run, checkpoint=checkpoint))
            if rng.random() < sleep:
                body.append(msg(S, "sleep", None, rng.choice([0.0, 0.1, 1.0])))
        if fl:
            g = self.group()
            body.append(msg(S, "complete", fl, run=run, group=g))
            body.append(msg(S, "wait", None, group=g))
            if not (getattr(self, "backstop", 0.0) and rng.random() < self.backstop):
                body.append(msg(S, "collect", fl, run=run))
            # (else: the flyer's data is left to the collection the engine performs itself inside 'close_run')
        if mon and rng.random() < 0.6:
            body.append(msg(S, "unmonitor", mon, run=run))
        body.append(msg(S, "close_run", None, run=run))
        return body

    def staged(self, body, style=None):
        """Surround with stage/unstage of a subset of devices."""
        rng, S = self.rng, self.S
        devs = [d for d in self.dets + self.motors if rng.random() < 0.5]
        if not devs:
            return body
        style = style or rng.choice(["finally", "linear", "none", "finally"])
        pre = [msg(S, "stage", d) for d in devs]
        post = [msg(S, "unstage", d) for d in reversed(devs)]
        if style == "finally":
            return pre + [{"op": "try", "site": S(), "body": body, "finally": post}]
        if style == "linear":
            return pre + body + post
        return pre + body

    def generic(self, *, runs=None, nested=0.25, cleanup=0.5):
        rng, S = self.rng, self.S
        nruns = runs if runs is not None else rng.choice([1, 1, 1, 2])
        if nruns >= 2 and rng.random() < nested:
            a = self.run_block(run="A", monitor=0.0, fly=0.0)
            inside = rng.random() < 0.5
            # a run nested inside another one is often a one-shot 'snapshot' without a checkpoint of its own
            b = self.run_block(run="B", monitor=0.0, fly=0.0, **({"npoints": rng.choice([0, 1, 1]), "checkpoint": 0.0, "sleep": 0.0} if inside and rng.random() < 0.6 else {}))
            if not inside:
                # interleave: open A, open B, A points.., B points.., close B, close A
                body = [a[0], b[0]] + a[1:-1] + b[1:-1] + [b[-1], a[-1]]
            else:
                # run B lives entirely inside run A: A goes on taking data after B was closed
                safe, inb, pending = [], False, set()
                for i, n_ in enumerate(a[:-1]):
                    if n_.get("cmd") == "create" or (n_.get("cmd") == "rewindable" and n_.get("args") == [False]):
                        inb = True  # (nor inside a section with rewinding switched off: a move there cannot be repeated)
                    elif n_.get("cmd") in ("save", "drop") and not any(x.get("cmd") == "rewindable" and x.get("args") == [True] for x in a[i + 1 : i + 2]):
                        inb = False
                    elif n_.get("cmd") == "rewindable" and n_.get("args") == [True]:
                        inb = False
                    g = (n_.get("kw") or {}).get("group")
                    if n_.get("cmd") == "wait":
                        pending.discard(g)
                    elif g is not None:
                        pending.add(g)
                    if not inb and not pending and n_.get("op") == "msg":
                        # not inside an event bundle of A and nothing of A in flight (closing B is an implicit
                        # checkpoint: a motion started before it would not be repeated by a later rewind)
                        safe.append(i + 1)
                cut = rng.choice(safe or [1])
                # ... and something replayable of the outer plan follows the inner run before its next checkpoint
                tail = [msg(S, "sleep", None, rng.choice([0.1, 0.5])), msg(S, "null")] if rng.random() < 0.6 else []
                body = a[:cut] + b + tail + a[cut:]
        else:
            body = []
            for i in range(nruns):
                body.extend(self.run_block())
                if i + 1 < nruns and rng.random() < 0.5:
                    body.append(msg(S, "checkpoint"))
        if rng.random() < cleanup:
            fin = []
            for m in self.motors:
                if rng.random() < 0.6:
                    g = self.group()
                    fin += [msg(S, "set", m, self.specs[m].get("initial", 0.0), group=g), msg(S, "wait", None, group=g)]
            if getattr(self, "cleanup_checkpoint", 0.0) and rng.random() < self.cleanup_checkpoint:
                fin.insert(0, msg(S, "checkpoint"))  # clean-up written as a plan of its own, with its checkpoint
            fin.append(msg(S, "null"))
            body = [{"op": "try", "site": S(), "body": body, "finally": fin}]
        body = self.staged(body)
        if rng.random() < 0.3:
            body.append({"op": "return", "value": rng.choice([7, "done", [1, 2]])})
        return body


def nonresumable_tail(rng, body, S):
    """Insert one `clear_checkpoint` at a top-level position of the first run and drop every explicit `checkpoint`
    after it: from there on the plan is not resumable, whatever implicit checkpoints (unstage, unmonitor,
    close_run ...) follow.  Returns the new body (the input is not modified)."""
    body = copy.deepcopy(body)

    def top(nodes):
        # the statement list that holds the first open_run
        for n in nodes:
            if n.get("op") == "msg" and n.get("cmd") == "open_run":
                return nodes
        for n in nodes:
            for k in ("body",):
                if isinstance(n.get(k), list):
                    r = top(n[k])
                    if r is not None:
                        return r
        return None

    lst = top(body)
    if lst is None:
        return body
    i0 = next(i for i, n in enumerate(lst) if n.get("cmd") == "open_run")
    inb = False
    safe = []
    for i, n in enumerate(lst):
        if n.get("cmd") == "create":
            inb = True
        elif n.get("cmd") in ("save", "drop"):
            inb = False
        if i > i0 and not inb and n.get("op") == "msg":
            safe.append(i + 1)
    if not safe:
        return body
    cut = rng.choice(safe)
    lst.insert(cut, msg(S, "clear_checkpoint"))

    def strip(nodes, armed):
        out = []
        for n in nodes:
            if n.get("cmd") == "clear_checkpoint":
                armed = True
                out.append(n)
                continue
            if armed and n.get("op") == "msg" and n.get("cmd") == "checkpoint":
                continue
            for k in ("body", "finally", "else"):
                if isinstance(n.get(k), list):
                    n[k], armed = strip(n[k], armed)
            for h in n.get("handlers", []) or []:
                h["body"], armed = strip(h["body"], armed)
            out.append(n)
        return out, armed

    body, _ = strip(body, False)
    return body


def builtin_plan(rng, specs):
    """One of bluesky's own plans (bluesky.plans) with generated arguments: the message sequences users really
    run - stage/unstage and run decorators, per-step checkpoints, `one_nd_step`, flyers."""
    motors = names(specs, "motor", "pmotor")
    dets = names(specs, "det", "pdet")
    flyers = names(specs, "flyer", "pageflyer")
    D = {"devs": [d for d in dets if rng.random() < 0.8] or dets[:1]}
    m1 = {"dev": motors[0]}
    n = rng.choice([1, 2, 3])
    a, b = rng.choice([(-1, 1), (0, 2), (1, -1)])
    kinds = ["count", "count", "scan", "list_scan", "rel_scan", "grid_scan", "rel_list_scan", "x2x_scan", "spiral_square", "log_scan"]
    if flyers:
        kinds += ["fly", "fly"]
    kind = rng.choice(kinds)
    if kind in ("grid_scan", "spiral_square") and len(motors) < 2:
        kind = "scan"
    if kind == "count":
        return {"op": "plan", "name": "count", "args": [D], "kw": {"num": n, "delay": rng.choice([None, 0.1, 0])}}
    if kind in ("scan", "rel_scan"):
        return {"op": "plan", "name": kind, "args": [D, m1, a, b, max(n, 2)]}
    if kind == "log_scan":
        return {"op": "plan", "name": "log_scan", "args": [D, m1, 0, 1, max(n, 2)]}  # positions 10**0 .. 10**1
    if kind in ("list_scan", "rel_list_scan"):
        return {"op": "plan", "name": kind, "args": [D, m1, [rng.choice([0.5, 1.0, -1.0, 2.0]) for _ in range(n)]]}
    if kind == "grid_scan":
        return {"op": "plan", "name": kind, "args": [D, m1, a, b, 2, {"dev": motors[1]}, 0, 1, 2], "kw": {"snake_axes": rng.choice([True, False])}}
    if kind == "x2x_scan":
        if len(motors) < 2:
            return {"op": "plan", "name": "scan", "args": [D, m1, a, b, 2]}
        return {"op": "plan", "name": "x2x_scan", "args": [D, m1, {"dev": motors[1]}, 0, 1, 2]}
    if kind == "spiral_square":
        return {"op": "plan", "name": "spiral_square", "args": [D, m1, {"dev": motors[1]}, 0.0, 0.0, 1.0, 1.0, 2, 2]}
    return {"op": "plan", "name": "fly", "args": [[{"dev": f} for f in flyers[:1]]]}


# --------------------------------------------------------------------------------------
# injection schedules

INTERRUPTS = ["pause", "dpause", "abort", "stop", "halt"]


def gen_injections(rng, nsteps, *, kinds=None, k=None, slack=6, suspender=None, weights=None):
    """k injections at handle boundaries in [0, nsteps+slack]."""
    kinds = kinds or INTERRUPTS
    if k is None:
        k = rng.choice([1, 1, 1, 2, 2, 3])
    out = []
    for i in range(k):
        do = rng.choices(kinds, weights=weights)[0] if weights else rng.choice(kinds)
        at = {"step": rng.randrange(0, max(1, nsteps + slack))}
        inj = {"id": f"i{i}", "at": at, "do": do}
        if do == "trip" and suspender:
            inj.update(suspender_trip(rng, suspender))
        out.append(inj)
    out.sort(key=lambda x: x["at"]["step"])
    return out


DECISIONS = ["resume", "resume", "resume", "abort", "stop", "halt"]


def gen_decisions(rng, n=3, kinds=None):
    kinds = kinds or DECISIONS
    return [{"do": rng.choice(kinds)} for _ in range(n)]


def strip_faults(case):
    """The fault-free twin: no injections, no device faults, no raising callbacks."""
    c = copy.deepcopy(case)
    for step in c.get("script", []):
        step.pop("inject", None)
        for d in step.get("decisions", []) or []:
            d.pop("inject", None)
    for spec in c.get("devices", {}).values():
        spec.pop("faults", None)
    for spec in c.get("callbacks", {}).values():
        spec.pop("raise_at", None)
    return c
