"""In-memory stand-in for the `zmq` / `zmq.asyncio` modules, passed to bluesky's Publisher and
RemoteDispatcher through their existing `zmq=` / `zmq_asyncio=` parameters.

One `Bus` per simulation plays the proxy: every frame a PUB socket sends is delivered to every SUB socket
after a delay chosen by the case (per-frame), never reordered within one publisher->subscriber pair
(the real transport is a TCP connection: ordered, lossless while connected).
"""

from __future__ import annotations

import asyncio
from collections import deque

PUB = 1
SUB = 2
SUBSCRIBE = 6


class Bus:
    def __init__(self, sim):
        self.sim = sim
        self.subs = []
        self.delays = deque()  # per-frame extra delays, consumed in send order
        self.last_arrival = {}  # (pub id, sub id) -> time of the last scheduled arrival

    def publish(self, pub, frame):
        sim = self.sim
        d = self.delays.popleft() if self.delays else 0.0
        for s in list(self.subs):
            key = (pub.sid, s.sid)
            when = max(sim.now + d, self.last_arrival.get(key, 0.0))
            self.last_arrival[key] = when
            sim.call_ext_at(when, (lambda s=s, frame=frame: s._deliver(frame)), "zmq-frame")
        sim.record("zmq_send", pub=pub.sid, n=len(frame), delay=d)


class Socket:
    _n = 0

    def __init__(self, bus, kind):
        Socket._n += 1
        self.bus = bus
        self.kind = kind
        self.sid = None
        self.queue = deque()
        self.waiter = None
        self.closed = False

    def connect(self, url):
        self.url = url
        if self.kind == SUB:
            self.sid = len(self.bus.subs)
            self.bus.subs.append(self)
        else:
            self.sid = getattr(self.bus, "_npub", 0)
            self.bus._npub = self.sid + 1

    def setsockopt_string(self, opt, value):
        pass

    def send(self, message):
        if self.closed:
            raise RuntimeError("send on closed socket")
        self.bus.publish(self, bytes(message))

    # --- SUB side: awaitable recv() on the simulated loop
    def _deliver(self, frame):
        if self.closed:
            return
        self.queue.append(frame)
        w = self.waiter
        if w is not None and not w.done():
            self.waiter = None
            # delivered from the 'network thread': hand over to the loop thread
            w.get_loop().call_soon_threadsafe(lambda: (not w.done()) and w.set_result(None))

    async def recv(self):
        while not self.queue:
            self.waiter = asyncio.get_running_loop().create_future()
            await self.waiter
        return self.queue.popleft()

    def close(self):
        self.closed = True
        if self in self.bus.subs:
            self.bus.subs.remove(self)


class Context:
    def __init__(self, bus):
        self.bus = bus

    def socket(self, kind):
        return Socket(self.bus, kind)

    def destroy(self):
        pass


class FakeZmq:
    """Looks like the `zmq` module (and like `zmq.asyncio`)."""

    PUB = PUB
    SUB = SUB
    SUBSCRIBE = SUBSCRIBE

    def __init__(self, bus):
        self.bus = bus

    def Context(self):
        return Context(self.bus)
