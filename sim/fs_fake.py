"""In-memory file system behind `zict.File` (PersistentDict) and bluesky's JSON writers.

Substituted at the module seams `zict.file.open` / `zict.file.os` and
`bluesky.callbacks.json_writer.open` / `.Path`.  Writes are buffered in the file object and reach the
'disk' when the file is flushed or closed (or the buffer exceeds 8 KiB), as with real buffered I/O; every
such commit is a numbered syscall at which the case may inject: ENOSPC / EIO (OSError), a torn (short) write
followed by a crash, or a crash of the process (SimCrash) just before or just after it.
"""

from __future__ import annotations

import errno
import io
import posixpath


class SimCrash(BaseException):
    """The simulated process dies here; only what the disk holds survives."""


class FakeFS:
    def __init__(self, sim=None, faults=None):
        self.sim = sim
        self.files = {}  # path -> bytes
        self.dirs = {"/"}
        self.nsys = 0
        self.faults = dict(faults or {})  # syscall index -> {"kind": ...}
        self.fired = {}
        self._fd = 100
        self.fds = {}

    # ---- syscalls -------------------------------------------------------------------
    def _sys(self, what, path):
        i = self.nsys
        self.nsys += 1
        f = self.faults.get(str(i)) or self.faults.get(i)
        if self.sim is not None:
            self.sim.record("sys", i=i, what=what, path=path, fault=(f or {}).get("kind"))
        return f, i

    def _fire(self, f):
        self.fired[f["kind"]] = self.fired.get(f["kind"], 0) + 1
        if self.sim is not None:
            self.sim.count_fault("fs:" + f["kind"])

    def commit(self, path, data, append):
        f, i = self._sys("write", path)
        if f:
            self._fire(f)
            k = f["kind"]
            if k == "crash_before":
                raise SimCrash(f"crash before write #{i}")
            if k in ("enospc", "eio", "emfile"):
                raise OSError({"enospc": errno.ENOSPC, "eio": errno.EIO, "emfile": errno.EIO}[k], "injected " + k)
            if k == "torn":
                n = int(len(data) * f.get("frac", 0.5))
                self.files[path] = (self.files.get(path, b"") if append else self.files.get(path, b"")) + data[:n]
                raise SimCrash(f"torn write #{i}: {n} of {len(data)} bytes")
        self.files[path] = self.files.get(path, b"") + data
        if f and f["kind"] == "crash_after":
            raise SimCrash(f"crash after write #{i}")

    # ---- the `open` seam --------------------------------------------------------------
    def open(self, path, mode="r", *a, **kw):
        path = str(path)
        binary = "b" in mode
        if "r" in mode and "+" not in mode:
            f, i = self._sys("open-r", path)
            if f and f["kind"] == "emfile":
                # the open for reading fails although the file is there: out of descriptors
                self._fire(f)
                raise OSError(errno.EMFILE, "injected emfile")
            if path not in self.files:
                raise FileNotFoundError(errno.ENOENT, "No such file", path)
            data = bytes(self.files[path])
            fh = _ReadFile(self, path, data) if binary else io.StringIO(data.decode())
            return fh
        f, i = self._sys("open-w", path)
        if f and f["kind"] in ("enospc", "eio", "emfile"):
            self._fire(f)
            raise OSError({"enospc": errno.ENOSPC, "eio": errno.EIO, "emfile": errno.EMFILE}[f["kind"]], "injected " + f["kind"])
        if f and f["kind"] == "crash_before":
            self._fire(f)
            raise SimCrash(f"crash before open #{i}")
        d = posixpath.dirname(path)
        if d and d not in self.dirs:
            raise FileNotFoundError(errno.ENOENT, "No such directory", d)
        if "w" in mode:
            self.files[path] = b""  # O_TRUNC takes effect at open()
        elif "a" in mode:
            self.files.setdefault(path, b"")
        return _WriteFile(self, path, binary)


class _ReadFile(io.BytesIO):
    def __init__(self, fs, path, data):
        super().__init__(data)
        self._fs = fs
        self._size = len(data)
        fs._fd += 1
        self._fdno = fs._fd
        fs.fds[self._fdno] = self

    def fileno(self):
        return self._fdno


class _WriteFile:
    def __init__(self, fs, path, binary):
        self.fs = fs
        self.path = path
        self.binary = binary
        self.buf = bytearray()
        self.closed = False

    def write(self, data):
        if self.closed:
            raise ValueError("I/O operation on closed file")
        if not self.binary:
            data = data.encode()
        self.buf += bytes(data)
        if len(self.buf) > 8192:
            self.flush()
        return len(data)

    def writelines(self, lines):
        for ln in lines:
            self.write(ln)

    def flush(self):
        if self.buf:
            data, self.buf = bytes(self.buf), bytearray()
            self.fs.commit(self.path, data, True)

    def close(self):
        if not self.closed:
            try:
                self.flush()
            finally:
                self.closed = True

    def __enter__(self):
        return self

    def __exit__(self, et, ev, tb):
        if et is not None and issubclass(et, SimCrash):
            self.closed = True  # the process is dead: nothing is flushed
            return False
        self.close()
        return False


class FakeOS:
    """The parts of `os` that zict.file uses."""

    def __init__(self, fs):
        self.fs = fs
        self.path = _FakeOSPath(fs)

    def makedirs(self, d, exist_ok=False):
        self.fs.dirs.add(str(d))

    def listdir(self, d):
        d = str(d).rstrip("/")
        return sorted(posixpath.basename(p) for p in self.fs.files if posixpath.dirname(p) == d)

    def remove(self, p):
        p = str(p)
        f, i = self.fs._sys("remove", p)
        if f and f["kind"] == "crash_before":
            self.fs._fire(f)
            raise SimCrash(f"crash before remove #{i}")
        if p not in self.fs.files:
            raise FileNotFoundError(errno.ENOENT, "No such file", p)
        del self.fs.files[p]
        if f and f["kind"] == "crash_after":
            self.fs._fire(f)
            raise SimCrash(f"crash after remove #{i}")

    def fstat(self, fd):
        fh = self.fs.fds[fd]

        class _St:
            st_size = fh._size

        return _St()


class _FakeOSPath:
    def __init__(self, fs):
        self.fs = fs

    def exists(self, p):
        p = str(p)
        return p in self.fs.dirs or p in self.fs.files

    join = staticmethod(posixpath.join)


def make_path_class(fs):
    """A minimal pathlib.Path look-alike over the fake file system."""

    class FakePath:
        def __init__(self, p):
            self.p = str(p)

        def __truediv__(self, other):
            return FakePath(posixpath.join(self.p, str(other)))

        def exists(self):
            return self.p in fs.files or self.p in fs.dirs

        def __str__(self):
            return self.p

        def __fspath__(self):
            return self.p

        def __repr__(self):
            return f"FakePath({self.p!r})"

    return FakePath
