"""Run one explicit case (a JSON-able dict) on the simulator and return its history.

`run_case(case)` is a pure function of the case and the code under test.
"""

from __future__ import annotations

import contextlib
import copy
import hashlib
import json
import logging
import warnings

from . import kernel
from .devices import _cbname, build_world
from .dsl import Ctx, summarize
from .kernel import Sim, SimAbort, installed

warnings.simplefilter("ignore")
logging.disable(logging.CRITICAL)


class CallbackError(Exception):
    """Raised by fake subscribers when scheduled to fail."""


class RecordingCallback:
    """A subscriber that records what it receives and may raise on schedule."""

    def __init__(self, sim, cid, spec):
        self.sim = sim
        self.cid = cid
        self.raise_at = {k: set(v) for k, v in spec.get("raise_at", {}).items()}  # kind -> {index}
        self.counts = {}

    def __call__(self, name, doc):
        i = self.counts.get(name, 0)
        self.counts[name] = i + 1
        self.sim.record("cb", cid=self.cid, name=name, uid=_doc_key(name, doc))
        if i in self.raise_at.get(name, ()):
            self.sim.count_fault("callback_raise")
            raise CallbackError(f"callback {self.cid} raising on {name}#{i}")

    def __repr__(self):
        return f"<cb {self.cid}>"


class _EqRecorder(RecordingCallback):
    """All recorders of this class compare equal (think of dataclass-like recorders that start out with the same
    contents); they are still different objects."""

    def __eq__(self, other):
        return isinstance(other, _EqRecorder)

    __hash__ = object.__hash__

    def handle(self, name, doc):
        return RecordingCallback.__call__(self, name, doc)


def _doc_key(name, doc):
    if name in ("datum",):
        return doc.get("datum_id")
    if name in ("event_page", "datum_page"):
        u = doc.get("uid") or doc.get("datum_id")
        return tuple(u) if isinstance(u, list) else u
    return doc.get("uid")


class Result:
    def __init__(self):
        self.history = []
        self.aborted = None  # (kind, text) if the simulator aborted the case
        self.harness_error = None
        self.ctx = None
        self.world = None
        self.sim = None
        self.RE = None
        self.case = None

    # convenience views
    def events(self, kind):
        return [e for e in self.history if e[1] == kind]

    def digest(self):
        h = hashlib.sha256()
        for e in self.history:
            h.update(json.dumps(e, sort_keys=True, default=repr).encode())
        return h.hexdigest()[:16]


def _build_suspender(ctx, world, spec):
    import bluesky.suspenders as S

    cls = getattr(S, spec["cls"])
    kwargs = dict(spec.get("kwargs", {}))
    for k in ("pre_plan", "post_plan"):
        if spec.get(k) is not None:
            body = spec[k]
            if spec.get(k + "_form") == "list":
                # a plain list of messages, reusable across trips
                from bluesky.utils import Msg

                kwargs[k] = [Msg(n["cmd"], world.get(n.get("obj")), *ctx.val(n.get("args", [])), **ctx.val(n.get("kw", {}))) for n in body]
            else:
                kwargs[k] = (lambda b: (lambda: ctx.run_body(b)))(body)
    args = list(spec.get("args", []))
    with warnings.catch_warnings():
        warnings.simplefilter("ignore")
        return cls(world[spec["signal"]], *args, **kwargs)


def _preprocessor(ctx, spec):
    import bluesky.preprocessors as bpp

    name = spec["name"]
    if name == "SupplementalData":
        sd = bpp.SupplementalData(
            baseline=ctx.val(spec.get("baseline", [])),
            monitors=ctx.val(spec.get("monitors", [])),
            flyers=ctx.val(spec.get("flyers", [])),
        )
        return sd
    fn = getattr(bpp, name)
    args = spec.get("args", [])
    kw = spec.get("kw", {})
    return lambda plan: fn(plan, *ctx.val(args), **ctx.val(kw))


class Driver:
    """The 'user thread' plus the injection machinery for one case."""

    def __init__(self, case, sim, res):
        from bluesky.run_engine import RunEngine
        from bluesky.utils import DuringTask

        self.case = case
        self.sim = sim
        self.res = res
        recfg = case.get("re", {})
        self.world = build_world(sim, case.get("devices", {}))
        self.callbacks = {}
        for cid, spec in sorted(case.get("callbacks", {}).items()):
            if spec.get("bound_method"):
                # subscribed as a bound method of an object that compares equal to its siblings (value equality,
                # identity hash): each subscription is still a subscription of its own
                owner = _EqRecorder(sim, cid, spec)
                self._cb_owners = getattr(self, "_cb_owners", []) + [owner]  # the registry only keeps weak references
                self.callbacks[cid] = owner.handle
            else:
                self.callbacks[cid] = RecordingCallback(sim, cid, spec)
        self.ctx = Ctx(sim, self.world, callbacks=self.callbacks)
        self.md = copy.deepcopy(recfg.get("md", {}))
        kwargs = {}
        if recfg.get("md_validator") == "reject_key":
            key = recfg.get("reject_key", "forbidden")

            def validator(md, key=key):
                sim.record("validator", keys=sorted(md))
                if key in md:
                    raise ValueError("rejected metadata")

            kwargs["md_validator"] = validator
        if recfg.get("md_normalizer") == "tag":

            def normalizer(md):
                md = dict(md)
                md["normalized"] = True
                return md

            kwargs["md_normalizer"] = normalizer
        managers = []
        if recfg.get("context_managers") == "single_use":
            # the documented seam for what surrounds each blocking stretch (default: the SIGINT handler): here a
            # factory whose product can be entered once, like any @contextmanager function; entries/exits recorded
            nmade = [0]

            def factory(engine):
                nmade[0] += 1
                k = nmade[0]

                @contextlib.contextmanager
                def surround():
                    sim.record("ctxmgr", what="enter", k=k)
                    try:
                        yield
                    finally:
                        sim.record("ctxmgr", what="exit", k=k)

                return surround()

            managers = [factory]
        self.RE = RunEngine(
            self.md,
            loop=sim.loop,
            during_task=DuringTask(),
            context_managers=managers,
            call_returns_result=bool(recfg.get("call_returns_result", False)),
            **kwargs,
        )
        RE = self.RE
        RE.record_interruptions = bool(recfg.get("record_interruptions", False))
        RE.ignore_callback_exceptions = bool(recfg.get("ignore_callback_exceptions", False))
        RE.msg_hook = self._msg_hook
        RE.state_hook = self._state_hook
        self.inflight = None  # command whose coroutine is suspended right now (an await inside the command)
        if case.get("sim", {}).get("trace_commands", True):
            self._wrap_commands()
        _orig_request_suspend = RE.request_suspend

        def traced_request_suspend(fut, **kw):
            sim.record("sus_request", justification=kw.get("justification"), state=str(RE.state))
            return _orig_request_suspend(fut, **kw)

        RE.request_suspend = traced_request_suspend
        self._recorder_token = RE.subscribe(self._recorder)
        self.ctx.suspenders = {}
        for sid, spec in sorted(case.get("suspenders", {}).items()):
            self.ctx.suspenders[sid] = _build_suspender(self.ctx, self.world, spec)
        RE.preprocessors = [_preprocessor(self.ctx, p) for p in recfg.get("preprocessors", [])]
        self.tokens = {}  # script-level token names -> public tokens
        # injection state
        self.pending = []  # injections of the blocking call in progress
        self.call_start_step = 0
        self.call_start_time = 0.0
        self.call_msgs = 0
        self.call_index = -1
        self.in_call = False
        sim.step_hooks.append(self._inject_hook)
        res.ctx = self.ctx
        res.world = self.world
        res.RE = RE

    # -- hooks -------------------------------------------------------------------------
    def _wrap_commands(self):
        """Observe each command's completion through the public register_command() seam.

        The wrapper awaits the original coroutine directly (no extra suspension point), so the
        schedule is unchanged; it records whether the command returned, raised or was cancelled."""
        import asyncio

        RE, sim, ctx = self.RE, self.sim, self.ctx

        def wrap(name, fn):
            async def traced(msg):
                mid = ctx.mid_of(msg)
                self.inflight = name
                try:
                    try:
                        r = await fn(msg)
                    finally:
                        self.inflight = None
                except asyncio.CancelledError:
                    sim.record("cmd", mid=mid, cmd=name, end="cancelled", state=str(RE.state))
                    raise
                except Exception as e:
                    sim.record("cmd", mid=mid, cmd=name, end="error", exc=type(e).__name__)
                    raise
                ev = sim.record("cmd", mid=mid, cmd=name, end="ok", value=summarize(r))
                ctx.cmd_results.setdefault(mid, []).append((ev[0], r))
                return r

            traced.__doc__ = fn.__doc__
            return traced

        for name in list(RE.commands):
            RE.register_command(name, wrap(name, RE._command_registry[name]))

    def _msg_hook(self, msg):
        RE = self.RE
        mid = self.ctx.mid_of(msg)
        self.call_msgs += 1
        cache = RE._msg_cache
        self.sim.record(
            "msg",
            mid=mid,
            cmd=msg.command,
            obj=getattr(msg.obj, "name", None) if msg.obj is not None else None,
            args=summarize(list(msg.args)),
            kw=summarize(dict(msg.kwargs)),
            run=msg.run,
            state=str(RE.state),
            n=self.call_msgs,
            wall=self.sim.wall_time(),
            dbg_cache=None if cache is None else len(cache),
            dbg_rewindable=RE._rewindable_flag,
        )
        for inj in self.pending:
            at = inj["at"]
            if "msg" in at and not inj.get("_armed") and at["msg"] == self.call_msgs:
                inj["_armed"] = self.sim.nsteps + 1 + at.get("plus", 0)

    def _state_hook(self, new, old):
        self.sim.record("state", new=str(new), old=str(old))
        # anchor {"state": s, "occ": i, "plus": j}: j handles after the engine entered state s for the i-th time in this call
        for inj in self.pending:
            at = inj["at"]
            if "state" in at and not inj.get("_armed") and at["state"] == str(new):
                inj["_seen"] = inj.get("_seen", 0) + 1
                if inj["_seen"] > at.get("occ", 0):
                    inj["_armed"] = self.sim.nsteps + 1 + at.get("plus", 0)

    def _recorder(self, name, doc):
        self.sim.record("doc", name=name, doc=copy.deepcopy(doc))

    # -- injections --------------------------------------------------------------------
    def _inject_hook(self, sim):
        if not self.in_call or not self.pending:
            return False
        for inj in self.pending:
            if inj.get("_fired"):
                continue
            at = inj["at"]
            due = False
            if "step" in at:
                due = sim.nsteps - self.call_start_step >= at["step"]
            elif "msg" in at or "state" in at:
                due = inj.get("_armed") is not None and sim.nsteps >= inj["_armed"]
            elif "time" in at:
                due = sim.now - self.call_start_time >= at["time"] - 1e-9
            if due:
                inj["_fired"] = True
                sim.run_external(lambda: self._do_action(inj))
                return True
        return False

    def _do_action(self, inj):
        from bluesky._vendor.super_state_machine.errors import TransitionError
        from bluesky.utils import RunEngineInterrupted

        RE = self.RE
        sim = self.sim
        do = inj["do"]
        state0 = str(RE.state)
        rec = {"do": do, "state": state0, "args": inj.get("args"), "id": inj.get("id")}
        sim.record("inject_begin", **rec)
        self._note_context(do, state0)
        outcome = "ok"
        text = ""
        try:
            if do == "pause":
                RE.request_pause(False)
            elif do == "dpause":
                RE.request_pause(True)
            elif do == "abort":
                RE.abort(inj.get("args", {}).get("reason", "injected abort"))
            elif do == "stop":
                RE.stop()
            elif do == "halt":
                RE.halt()
            elif do == "put":
                a = inj["args"]
                self.world[a["signal"]].put(a["value"])
            elif do == "trip":
                a = inj["args"]
                sig = self.world[a["signal"]]
                sig.put(a["value"])
                rel, after = a.get("release_value"), a.get("after")
                if after is not None:
                    sim.call_ext(after, (lambda: sig.put(rel)), "release")
                    # a signal that flaps: further [delay after the previous change, value] pairs
                    t_ = after
                    for dt_, val_ in a.get("then") or []:
                        t_ += dt_
                        sim.call_ext(t_, (lambda v_=val_: sig.put(v_)), "flap")
            elif do == "rsuspend":
                # the public RE.request_suspend(fut) used directly (no Suspender object): one asyncio.Event and one
                # callable (its bound `wait`) are re-used for every suspension of the case, as user code that keeps
                # `resume_when = ev.wait` around does
                import asyncio

                a = inj.get("args") or {}
                if getattr(self, "_rs_event", None) is None:
                    self._rs_event = asyncio.Event()
                    self._rs_wait = self._rs_event.wait
                ev = self._rs_event
                ev.clear()
                sim.record("rsuspend", just=a.get("just"), state=str(RE.state))
                RE.request_suspend(self._rs_wait, justification=a.get("just", "direct request"))
                sim.call_ext(a.get("after", 0.5), (lambda: RE.loop.call_soon_threadsafe(ev.set)), "rsuspend-release")
            elif do == "stall":
                sim.now += inj["args"]["dt"]
                sim.count_fault("loop_stall")
            elif do == "wall_jump":
                sim.wall_skew += inj["args"]["dt"]
                sim.count_fault("wall_jump")
            elif do == "remove_suspender":
                RE.remove_suspender(self.ctx.suspenders[inj["args"]["sus"]])
            elif do == "noop":
                pass
            else:
                raise ValueError(f"unknown action {do}")
        except TransitionError as e:
            outcome, text = "rejected", str(e)
        except RunEngineInterrupted as e:
            outcome, text = "interrupted", ""
        except SimAbort:
            raise
        except Exception as e:  # an exception from a public API call is itself an observation
            outcome, text = "error:" + type(e).__name__, str(e)[:200]
        sim.count_fault("inject:" + do + ":" + ("accepted" if outcome in ("ok", "interrupted") else outcome.split(":")[0]))
        sim.record(
            "inject_end",
            do=do,
            id=inj.get("id"),
            outcome=outcome,
            text=text,
            state=str(RE.state),
            state0=state0,
            dpr=bool(RE.deferred_pause_requested),
        )

    def _note_context(self, do, state0):
        """Reach measurement only (never read by an oracle, never draws from a PRNG): the situation in which an
        external request lands - action, engine state, command suspended in an await, bundling, resumable,
        open runs, whether the plan is already exhausted, whether a suspension is in effect."""
        RE, sim = self.RE, self.sim
        try:
            bundlers = list(RE._run_bundlers.values())
            bundling = any(getattr(b, "bundling", False) for b in bundlers)
            nopen = sum(1 for b in bundlers if getattr(b, "run_is_open", False))
            resumable = RE._msg_cache is not None
            exhausted = len(RE._plan_stack) == 0
        except Exception:
            return
        infl = self.inflight or "-"
        sim.contexts.add("|".join([do, state0, infl, "bundling" if bundling else "-", "resumable" if resumable else "nonresumable", f"runs={min(nopen, 2)}", "plan-exhausted" if exhausted else "-"]))
        if do in ("pause", "dpause", "abort", "stop", "halt", "trip"):
            if self.inflight:
                sim.probe("request_while_command_awaits:" + self.inflight)
            if state0 != "running":
                sim.probe("request_in_state:" + state0)
            if bundling:
                sim.probe("request_inside_event_bundle")
            if not resumable and state0 == "running":
                sim.probe("request_in_nonresumable_section")
            if exhausted and state0 == "running":
                sim.probe("request_after_plan_exhausted")
            if nopen >= 2:
                sim.probe("request_with_two_runs_open")

    # -- the user script ---------------------------------------------------------------
    def _blocking(self, api, fn, injections):
        """Run a blocking public call with its injections; record the outcome."""
        from bluesky.utils import RunEngineInterrupted

        RE = self.RE
        sim = self.sim
        self.pending = [dict(i) for i in injections or []]
        self.call_start_step = sim.nsteps
        self.call_start_time = sim.now
        self.call_msgs = 0
        self.call_index += 1
        self.in_call = True
        # time-anchored injections are external timed events: the clock must be able to jump to them
        markers = []
        for inj in self.pending:
            if "time" in inj["at"]:
                markers.append(sim.call_ext(inj["at"]["time"], lambda: None, "inject-time"))
        sim.record("call_begin", api=api, idx=self.call_index, state=str(RE.state))
        outcome, exc_type, text, value = "return", None, "", None
        exc_obj = None
        try:
            value = fn()
        except SimAbort:
            self.in_call = False
            raise
        except RunEngineInterrupted:
            outcome, exc_type = "raise", "RunEngineInterrupted"
        except BaseException as e:
            outcome, exc_type, text = "raise", type(e).__name__, str(e)[:300]
            exc_obj = e
        finally:
            self.in_call = False
            for mk in markers:
                mk.cancel()
        unfired = [i.get("id") for i in self.pending if not i.get("_fired")]
        self.pending = []
        cause = None
        if exc_obj is not None and exc_obj.__cause__ is not None:
            cause = {"type": type(exc_obj.__cause__).__name__, "text": str(exc_obj.__cause__)[:200]}
        self.last_exc = exc_obj
        sim.record(
            "call_end",
            api=api,
            idx=self.call_index,
            outcome=outcome,
            exc=exc_type,
            text=text,
            cause=cause,
            value=summarize(_result_summary(value)),
            state=str(RE.state),
            dpr=bool(RE.deferred_pause_requested),
            unfired=unfired,
            nmsgs=self.call_msgs,
            steps=sim.nsteps - self.call_start_step,
            subs={n: [_cbname(f) for f in d.subs] for n, d in self.world.items() if d.subs},
            scan_id=RE.md.get("scan_id"),
            store_scan_id=self.md.get("scan_id"),  # what the mapping the user handed to RunEngine(md) holds
        )
        return outcome

    def _settle(self, how):
        if how in (None, "idle"):
            self.sim.settle()
        elif isinstance(how, int):
            self.sim.settle(how)

    def run_script(self):
        RE = self.RE
        for step in self.case["script"]:
            do = step["do"]
            if do == "call":
                plan_body = step["plan"]
                subs = step.get("subs")
                if subs is not None:
                    subs = {k: [self.callbacks[c] for c in v] for k, v in subs.items()}
                md = step.get("md", {})
                plan = self._make_plan(step, plan_body)
                self._blocking("call", lambda: RE(plan, subs, **md) if subs is not None else RE(plan, **md), step.get("inject"))
                self._settle(step.get("settle"))
                for d in step.get("decisions", []):
                    if str(RE.state) != "paused":
                        break
                    self._decision(d)
                    self._settle(d.get("settle"))
                if str(RE.state) == "paused" and step.get("final", "abort"):
                    self._decision({"do": step.get("final", "abort")})
                    self._settle("idle")
            elif do == "subscribe":
                tok = RE.subscribe(self.callbacks[step["cb"]], step.get("name", "all"))
                self.tokens[step["token"]] = tok
                self.sim.record("user", do="subscribe", cb=step["cb"], name=step.get("name", "all"), token=step["token"], pub=tok)
            elif do == "unsubscribe":
                tok = self.tokens.get(step["token"])
                self.sim.record("user", do="unsubscribe", token=step["token"], pub=tok)
                RE.unsubscribe(tok)
            elif do == "install_suspender":
                self.sim.record("user", do="install_suspender", sus=step["sus"])
                RE.install_suspender(self.ctx.suspenders[step["sus"]])
            elif do == "remove_suspender":
                self.sim.record("user", do="remove_suspender", sus=step["sus"])
                try:
                    RE.remove_suspender(self.ctx.suspenders[step["sus"]])
                except SimAbort:
                    raise
                except Exception as e:
                    self.sim.record("user_error", do="remove_suspender", exc=type(e).__name__, text=str(e)[:200])
            elif do == "put":
                self.sim.record("user", do="put", signal=step["signal"], value=step["value"])
                self.world[step["signal"]].put(step["value"])
            elif do == "put_later":
                sig, val = step["signal"], step["value"]
                self.sim.call_ext(step["delay"], (lambda s=sig, v=val: self.world[s].put(v)), "put_later")
            elif do == "sleep":
                self.sim.run_for(step["t"])
            elif do == "settle":
                self._settle(step.get("how"))
            elif do == "set_md":
                self.RE.md[step["key"]] = step["value"]
            elif do == "unsubscribe_all":
                # what RE.reset() does to the subscriptions: every token is dead afterwards (the simulator's own
                # recorder is then subscribed again, like a user's logging callback would be after a reset)
                self.sim.record("user", do="unsubscribe_all")
                RE.dispatcher.unsubscribe_all()
                self.tokens.clear()
                self._recorder_token = RE.subscribe(self._recorder)
            elif do == "store_put":
                # the owner of the mapping that was handed to RunEngine(md) writes to it directly
                self.sim.record("user", do="store_put", key=step["key"], value=step["value"])
                self.md[step["key"]] = step["value"]
            elif do == "set_attr":
                setattr(RE, step["name"], step["value"])
            else:
                raise ValueError(f"unknown script step {do}")

    def _make_plan(self, step, body):
        form = step.get("plan_form", "gen")
        if form == "list":
            # a plain list of Msg objects
            from bluesky.utils import Msg

            return [Msg(n["cmd"], self.world.get(n.get("obj")), *self.ctx.val(n.get("args", [])), run=n.get("run"), **self.ctx.val(n.get("kw", {}))) for n in body]
        gen = self.ctx.plan(body)
        if step.get("plan_name"):
            try:
                gen.__name__ = step["plan_name"]
            except Exception:
                pass
        return gen

    def _decision(self, d):
        RE = self.RE
        do = d["do"]
        inj = d.get("inject")
        if do == "resume":
            self._blocking("resume", RE.resume, inj)
        elif do == "abort":
            self._blocking("abort", lambda: RE.abort(d.get("reason", "user abort")), inj)
        elif do == "stop":
            self._blocking("stop", RE.stop, inj)
        elif do == "halt":
            self._blocking("halt", RE.halt, inj)
        elif do == "request_pause":
            self._blocking("request_pause", lambda: RE.request_pause(d.get("defer", False)), inj)
        elif do == "put":
            self.sim.record("user", do="put", signal=d["signal"], value=d["value"])
            self.world[d["signal"]].put(d["value"])
        elif do == "sleep":
            self.sim.run_for(d["t"])
        elif do == "remove_suspender":
            self.sim.record("user", do="remove_suspender", sus=d["sus"])
            RE.remove_suspender(self.ctx.suspenders[d["sus"]])
        else:
            raise ValueError(f"unknown decision {do}")


def _result_summary(value):
    from bluesky.run_engine import RunEngineResult

    if isinstance(value, RunEngineResult):
        return {
            "uids": list(value.run_start_uids),
            "plan_result": summarize(value.plan_result) if not (type(value.plan_result) is object) else "NO_PLAN_RETURN",
            "exit_status": value.exit_status,
            "interrupted": value.interrupted,
            "reason": value.reason,
            "exception": summarize(value.exception),
        }
    if isinstance(value, tuple):
        return list(value)
    return value


class FakeSpan:
    """In-memory stand-in for an OpenTelemetry span (the SDK is not installed): records into the history."""

    def __init__(self, sim, sid, name):
        self.sim, self.sid, self.name = sim, sid, name
        self.ended = 0

    def set_attribute(self, key, value):
        self.sim.record("span_attr", sid=self.sid, key=key, value=value if isinstance(value, (str, int, float, bool, type(None))) else repr(value))

    def end(self, end_time=None):
        self.ended += 1
        self.sim.record("span_end", sid=self.sid, n=self.ended)

    def is_recording(self):
        return not self.ended

    def __enter__(self):
        return self

    def __exit__(self, *a):
        self.end()
        return False


class FakeTracer:
    def __init__(self, sim):
        self.sim = sim
        self.n = 0

    def start_span(self, name, *a, **kw):
        self.n += 1
        self.sim.record("span_start", sid=self.n, name=name)
        return FakeSpan(self.sim, self.n, name)


@contextlib.contextmanager
def _tracing(sim, case):
    """case['tracing']: route the RunEngine's run spans (module attribute `bluesky.run_engine.tracer`, looked up
    at call time by _open_run) to an in-memory recorder.  Per-message decorator spans stay on the no-op proxy."""
    if not case.get("tracing"):
        yield
        return
    from unittest import mock

    import bluesky.run_engine as bre

    with mock.patch.object(bre, "tracer", FakeTracer(sim)):
        yield


def run_case(case, keep_objects=True) -> Result:
    res = Result()
    res.case = case
    simcfg = case.get("sim", {})
    sim = Sim(
        case.get("seed", 0),
        handle_cost=simcfg.get("handle_cost", 0.0),
        max_steps=simcfg.get("max_steps", 60_000),
        max_time=simcfg.get("max_time", 1e6),
    )
    res.sim = sim
    with installed(sim), _tracing(sim, case):
        try:
            drv = Driver(case, sim, res)
            res.driver = drv
            drv.run_script()
            sim.settle()
            sim.record("end", state=str(drv.RE.state))
        except SimAbort as e:
            res.aborted = (type(e).__name__, str(e))
            sim.record("sim_abort", abort=type(e).__name__, text=str(e))
    res.history = sim.history
    return res


def history_lines(res: Result):
    return [json.dumps(e, sort_keys=True, default=repr) for e in res.history]
