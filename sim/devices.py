"""Fake devices written against `bluesky.protocols`, driven by the simulator.

Every method call is appended to the simulation history (`dev` events) and every timing /
failure decision comes from the device *spec* (part of the case), never from a clock or PRNG
read at run time.  Capabilities are composed per device (protocol membership is decided by
attribute presence, so a device only has the methods its spec lists).
"""

from __future__ import annotations

import asyncio

from bluesky.utils import NoReplayAllowed

from . import kernel

_EXC = {
    "RuntimeError": RuntimeError,
    "ValueError": ValueError,
    "KeyError": KeyError,
    "TimeoutError": TimeoutError,
    "OSError": OSError,
    "NoReplayAllowed": NoReplayAllowed,
    "ZeroDivisionError": ZeroDivisionError,
}


class DeviceFault(Exception):
    """Base of the injected exceptions so that oracles can tell them apart."""


def make_exc(name, msg):
    base = _EXC.get(name, RuntimeError)
    if base is NoReplayAllowed:
        return NoReplayAllowed(msg)
    cls = type("Injected" + base.__name__, (DeviceFault, base), {})
    return cls(msg)


class SimStatus:
    """Implements the `Status` protocol; completed by the simulated device thread."""

    _n = 0

    def __init__(self, sim, dev, op, sid):
        self.sim = sim
        self.dev = dev
        self.op = op
        self.sid = sid
        self._done = False
        self._success = False
        self._exc = None
        self._cbs = []
        self._timer = None

    def __hash__(self):
        return self.sid

    def __eq__(self, other):
        return self is other

    def __repr__(self):
        return f"<SimStatus {self.dev}.{self.op}#{self.sid} done={self._done} ok={self._success}>"

    @property
    def done(self):
        return self._done

    @property
    def success(self):
        return self._success

    def exception(self, timeout=0.0):
        return self._exc

    def add_callback(self, cb):
        if self._done:
            cb(self)
        else:
            self._cbs.append(cb)

    # ophyd-compatible spelling used by some plan stubs
    @property
    def callbacks(self):
        return list(self._cbs)

    def _finish(self, exc=None):
        if self._done:
            return
        self._done = True
        self._success = exc is None
        self._exc = exc
        if self._timer is not None:
            self._timer.cancel()
            self._timer = None
        self.sim.record("status", dev=self.dev, op=self.op, sid=self.sid, ok=self._success)
        cbs, self._cbs = self._cbs, []
        for cb in cbs:
            cb(self)


class _Base:
    """Common machinery: ledger, fault lookup, sync/async flavours, statuses."""

    parent = None

    def __init__(self, sim, name, spec, world):
        self.sim = sim
        self.name = name
        self.spec = spec
        self.world = world  # name -> device (for detector values)
        self._hash = spec.get("hash", sum(ord(c) * (i + 1) for i, c in enumerate(name)))
        self._occ = {}
        # "method#k": the k-th call fails; "method#k+": the k-th and every later call fail (a device that went away)
        self.faults = {tuple(k.split("#")[:1]) + (int(k.split("#")[1]),): v for k, v in spec.get("faults", {}).items() if not k.endswith("+")}
        self.sticky = {k.split("#")[0]: (int(k.split("#")[1][:-1]), v) for k, v in spec.get("faults", {}).items() if k.endswith("+")}
        self.async_ops = spec.get("async", {})  # method -> delay
        self.delays = spec.get("delays", {})  # method -> status delay
        self.subs = []  # subscribed callbacks
        self.readings = []  # every dict returned by read(), in order (identity checks)

    def __hash__(self):
        return self._hash

    def __eq__(self, other):
        return self is other

    def __repr__(self):
        return f"<{self.name}>"

    # -- ledger / faults
    def _log(self, method, **kw):
        return self.sim.record("dev", dev=self.name, method=method, **kw)

    def _fault(self, method):
        n = self._occ.get(method, 0)
        self._occ[method] = n + 1
        f = self.faults.get((method, n))
        if f is None and method in self.sticky and n >= self.sticky[method][0]:
            f = self.sticky[method][1]
        return f, n

    def _enter(self, method, **kw):
        """Log the call and raise a synchronous injected exception if scheduled."""
        f, n = self._fault(method)
        self._log(method, occ=n, fault=(f or {}).get("kind"), fexc=(f or {}).get("exc") if f else None, **kw)
        if f and f["kind"] == "raise":
            self.sim.count_fault("dev_raise:" + method)
            raise make_exc(f.get("exc", "RuntimeError"), f"injected {self.name}.{method}#{n}")
        return f, n

    def _status(self, method, f, n, default_delay=0.0, on_done=None):
        self.sim._status_n = getattr(self.sim, "_status_n", 0) + 1
        st = SimStatus(self.sim, self.name, method, self.sim._status_n)
        delay = self.delays.get(method, default_delay)
        exc = None
        if f and f["kind"] == "status_fail":
            exc = make_exc(f.get("exc", "RuntimeError"), f"injected status failure {self.name}.{method}#{n}")
            delay = f.get("delay", delay)
            self.sim.count_fault("status_fail:" + method)
        elif f and f["kind"] == "never":
            self.sim.count_fault("status_never:" + method)
            self._log("status_created", sid=st.sid, op=method, delay=None)
            return st
        elif f and f["kind"] == "slow":
            delay = f.get("delay", 10.0)
            self.sim.count_fault("status_slow:" + method)

        def fin():
            if on_done is not None and exc is None:
                on_done()
            st._finish(exc)

        self._log("status_created", sid=st.sid, op=method, delay=delay)
        if delay is None or delay <= 0 and not self.spec.get("defer_zero", True):
            fin()
        else:
            st._timer = self.sim.call_ext(max(delay, 0.0), fin, f"{self.name}.{method}")
        return st

    def _maybe_async(self, method, impl):
        """Return impl() or a coroutine that really suspends before calling impl."""
        d = self.async_ops.get(method)
        if d is None:
            return impl()

        async def co():
            self.sim.probe("async_dev_await")
            if d > 0:
                await asyncio.sleep(d)
            else:
                await asyncio.sleep(0)
            return impl()

        return co()


# ---- capability mixins -------------------------------------------------------------------


class ReadableMixin:
    def read(self):
        def impl():
            f, n = self._enter("read")
            r = self._reading()
            self.sim.record("reading", dev=self.name, occ=n, data={k: v["value"] for k, v in r.items()})
            self.readings.append(r)
            return r

        return self._maybe_async("read", impl)

    def describe(self):
        def impl():
            self._enter("describe")
            return self._describe()

        return self._maybe_async("describe", impl)

    @property
    def hints(self):
        return {"fields": list(self._describe())[:1]}


class ConfigurableMixin:
    def read_configuration(self):
        def impl():
            self._enter("read_configuration")
            cfg = {
                f"{self.name}_{k}": {"value": v, "timestamp": self.sim.wall_time()} for k, v in self._config.items()
            }
            self.sim.record("config_read", dev=self.name, data={k: v["value"] for k, v in cfg.items()})
            return cfg

        return self._maybe_async("read_configuration", impl)

    def describe_configuration(self):
        def impl():
            self._enter("describe_configuration")
            return {
                f"{self.name}_{k}": {"source": f"SIM:{self.name}:{k}", "dtype": "number", "shape": []}
                for k in self._config
            }

        return self._maybe_async("describe_configuration", impl)

    def configure(self, *args, **kwargs):
        self._enter("configure", args=repr(args), kwargs=repr(kwargs))
        old = {k: {"value": v} for k, v in self._config.items()}
        for k, v in kwargs.items():
            self._config[k] = v
        if args:
            self._config.update(args[0])
        new = {k: {"value": v} for k, v in self._config.items()}
        self.sim.record("config_set", dev=self.name, data={f"{self.name}_{k}": v for k, v in self._config.items()})
        return old, new


class StageableMixin:
    def stage(self):
        f, n = self._enter("stage")
        self.staged_count = getattr(self, "staged_count", 0) + 1
        if self.spec.get("stage_status"):
            return self._status("stage", f, n)
        if self.spec.get("stage_lists") == "self":
            return [self]  # a device that answers with itself only (its components are not listed)
        # like ophyd: staging a device stages its components and reports all of them
        return [self] + [d for d in self.world.values() if getattr(d, "parent", None) is self]

    def unstage(self):
        f, n = self._enter("unstage")
        self.staged_count = getattr(self, "staged_count", 0) - 1
        if self.spec.get("stage_status"):
            return self._status("unstage", f, n)
        return [self]


class TriggerableMixin:
    def trigger(self):
        f, n = self._enter("trigger")
        st = self._status("trigger", f, n, default_delay=self.spec.get("trigger_delay", 0.01))
        self.__dict__.setdefault("_triggers", []).append(st)  # an acquisition is in progress until this status is done
        return st


class StoppableMixin:
    def stop(self, success=True):
        def impl():
            self._enter("stop", success=success)
            self._do_stop(success)

        return self._maybe_async("stop", impl)

    def _do_stop(self, success):
        pass


class PausableMixin:
    def pause(self):
        def impl():
            self._enter("pause")

        return self._maybe_async("pause", impl)

    def resume(self):
        def impl():
            self._enter("resume")

        return self._maybe_async("resume", impl)


class SubscribableMixin:
    def subscribe(self, function, event_type=None, run=True, **kwargs):
        opts = {"event_type": event_type, "run": run, **kwargs}
        self._enter("subscribe", cb=_cbname(function), opts={k: v for k, v in sorted(opts.items()) if not (k == "event_type" and v is None) and not (k == "run" and v is True)})
        self.subs.append(function)
        if run:
            try:
                self._notify_one(function)
            except DeviceFault as e:
                if ".get#" not in str(e):
                    raise
                self.sim.record("sub_error", sig=self.name, cb=_cbname(function), exc=type(e).__name__)
            except RuntimeError as e:
                # a suspender shown a suspending value from inside the event-loop thread cannot create its bridge
                # event there ("Could not create the "): the control-system layer (ophyd wraps every callback) logs
                # that and goes on - the suspender stays installed and tripped
                if not (hasattr(function, "_should_suspend") and "Could not create" in str(e)):
                    raise
                self.sim.record("sub_error", sig=self.name, cb=_cbname(function), exc=type(e).__name__)
            if hasattr(function, "_should_suspend") and hasattr(function, "tripped"):
                # what a suspender made of the value it was shown on installation (its own record kind: the
                # predicate properties keep looking at updates only)
                self.sim.record("sus_install", sig=self.name, value=self._value, tripped=bool(function.tripped), has_ev=function._ev is not None)
        return len(self.subs)

    def clear_sub(self, function, event_type=None):
        self._enter("clear_sub", cb=_cbname(function))
        self.subs = [f for f in self.subs if f is not function and f != function]

    def _notify_one(self, function):
        function(value=self._value, old_value=getattr(self, "_old", self._value), timestamp=self.sim.wall_time(), obj=self, sub_type="value")

    def put(self, value):
        """Called from the simulated control-system thread."""
        self._old = self._value
        self._value = value
        self._log("put", value=value, nsubs=len(self.subs))
        for f in list(self.subs):
            try:
                self._notify_one(f)
            except DeviceFault as e:
                # the control-system layer logs a failing subscriber and goes on (as ophyd does); only the
                # injected failure of this signal's own get() is treated that way, anything else propagates
                if ".get#" not in str(e):
                    raise
                self.sim.record("sub_error", sig=self.name, cb=_cbname(f), exc=type(e).__name__)
            except Exception as e:
                # ... and an injected failure of a document subscriber that the engine's monitor callback ran into
                # (the monitor emits its event from this thread): logged by the control-system layer as well
                if type(e).__name__ != "CallbackError":
                    raise
                self.sim.record("sub_error", sig=self.name, cb=_cbname(f), exc=type(e).__name__)
            if hasattr(f, "_should_suspend") and hasattr(f, "tripped"):
                # observation point for the suspender properties: state after this value
                self.sim.record(
                    "sus",
                    sig=self.name,
                    cls=type(f).__name__,
                    value=value,
                    tripped=bool(f.tripped),
                    ss=bool(f._should_suspend(value)),
                    sr=bool(f._should_resume(value)),
                    has_ev=f._ev is not None,
                    installed=f.RE is not None,
                )

    def get(self):
        if self.faults or self.sticky:
            self._enter("get")  # (only signals with scheduled faults log their get() calls: histories of all others are unchanged)
        return self._value

    @property
    def value(self):
        return self._value


def _cbname(f):
    n = getattr(f, "__qualname__", None) or type(f).__name__
    if "emit_event" in n:
        return "RE.monitor"
    if hasattr(f, "_sig") and hasattr(f, "_should_suspend"):
        return "suspender"
    return n


# ---- concrete devices -----------------------------------------------------------------


class Motor(_Base, ReadableMixin, ConfigurableMixin, StageableMixin, StoppableMixin):
    """Moves in virtual time; stop() freezes it part-way."""

    def __init__(self, sim, name, spec, world):
        super().__init__(sim, name, spec, world)
        self._pos = float(spec.get("initial", 0.0))
        self._config = dict(spec.get("config", {"velocity": spec.get("velocity", 0.0)}))
        self._move = None  # (start, target, t0, duration, status)

    @property
    def position(self):
        return self._position_now()

    def _position_now(self):
        if self._move is None:
            return self._pos
        start, target, t0, dur, st = self._move
        if dur <= 0:
            return target
        frac = min(1.0, max(0.0, (self.sim.now - t0) / dur))
        return start + (target - start) * frac

    def _reading(self):
        return {self.name: {"value": self._position_now(), "timestamp": self.sim.wall_time()}}

    def _describe(self):
        return {self.name: {"source": f"SIM:{self.name}", "dtype": "number", "shape": []}}

    def set(self, value, **kwargs):
        start = self._position_now()
        f, n = self._enter("set", value=value, start=start)
        # a new set supersedes a move in progress
        if self._move is not None:
            self._pos = start
            self._move = None
        vel = self.spec.get("velocity", 0.0)
        dur = abs(value - start) / vel if vel else 0.01

        def arrived():
            self._pos = value
            self._move = None

        st = self._status("set", f, n, default_delay=dur, on_done=arrived)
        if not st.done:
            self._move = (start, value, self.sim.now, dur, st)
        return st

    def _do_stop(self, success):
        if self._move is not None:
            start, target, t0, dur, st = self._move
            self._pos = self._position_now()
            self._move = None
            self.sim.probe("motor_stopped_midway")
            if success:
                st._finish(None)
            else:
                st._finish(make_exc("RuntimeError", f"{self.name} stopped"))

    def locate(self):
        def impl():
            self._enter("locate")
            return {"setpoint": self._pos if self._move is None else self._move[1], "readback": self._position_now()}

        return self._maybe_async("locate", impl)


class PausableMotor(Motor, PausableMixin):
    pass


class Detector(_Base, ReadableMixin, ConfigurableMixin, StageableMixin, TriggerableMixin):
    """Reading is a pure function of the motors' current positions."""

    def __init__(self, sim, name, spec, world):
        super().__init__(sim, name, spec, world)
        self._config = dict(spec.get("config", {"exposure": 1.0}))
        self._keys = spec.get("keys") or [name]

    def _value(self, i):
        if any(not st._done for st in self.__dict__.get("_triggers", ())):
            # read while an acquisition is still going on (nobody waited for the trigger): a stale / half-made frame
            self.sim.probe("detector_read_while_acquiring")
            return -999.0 - i
        v = float(self.spec.get("base", 1.0)) + i
        for mname, coef in sorted(self.spec.get("coef", {}).items()):
            m = self.world.get(mname)
            if m is not None:
                v += coef * m._position_now()
        return v

    def _reading(self):
        t = self.sim.wall_time()
        return {k: {"value": self._value(i), "timestamp": t} for i, k in enumerate(self._keys)}

    def _describe(self):
        return {k: {"source": f"SIM:{k}", "dtype": "number", "shape": []} for k in self._keys}


class PausableDetector(Detector, PausableMixin):
    pass


class Signal(_Base, ReadableMixin, SubscribableMixin):
    def __init__(self, sim, name, spec, world):
        super().__init__(sim, name, spec, world)
        self._value = spec.get("initial", 0)

    def _reading(self):
        return {self.name: {"value": self._value, "timestamp": self.sim.wall_time()}}

    def _describe(self):
        return {self.name: {"source": f"SIM:{self.name}", "dtype": "number", "shape": []}}


class ConfigSignal(Signal, ConfigurableMixin):
    """A monitorable signal that also has configuration (e.g. an averaging time)."""

    def __init__(self, sim, name, spec, world):
        super().__init__(sim, name, spec, world)
        self._config = dict(spec.get("config", {"averaging": 1.0}))


class Flyer(_Base, StageableMixin):
    """Old-style flyer: kickoff / complete / collect (EventCollectable)."""

    def __init__(self, sim, name, spec, world):
        super().__init__(sim, name, spec, world)
        self._streams = spec.get("streams", {name + "_stream": [name + "_a"]})
        self._n = spec.get("events", 2)
        self._kicked = 0

    def kickoff(self):
        f, n = self._enter("kickoff")
        self._kicked += 1
        return self._status("kickoff", f, n, default_delay=0.01)

    def complete(self):
        f, n = self._enter("complete")
        return self._status("complete", f, n, default_delay=0.02)

    def describe_collect(self):
        def impl():
            self._enter("describe_collect")
            return {
                s: {k: {"source": f"SIM:{k}", "dtype": "number", "shape": []} for k in keys}
                for s, keys in self._streams.items()
            }

        return self._maybe_async("describe_collect", impl)

    def collect(self):
        self._enter("collect")
        t = self.sim.wall_time()
        out = []
        for s, keys in self._streams.items():
            for i in range(self._n):
                out.append({"data": {k: float(i) for k in keys}, "timestamps": {k: t for k in keys}, "time": t})
        return iter(out)


class PageFlyer(Flyer):
    """EventPageCollectable variant."""

    collect = None  # type: ignore

    def collect_pages(self):
        self._enter("collect_pages")
        t = self.sim.wall_time()
        out = []
        for s, keys in self._streams.items():
            out.append(
                {
                    "data": {k: [float(i) for i in range(self._n)] for k in keys},
                    "timestamps": {k: [t] * self._n for k in keys},
                    "time": [t] * self._n,
                }
            )
        return iter(out)


del PageFlyer.collect


class LoneStreamDetector(_Base, StageableMixin):
    """Writes stream assets (frames appear as a function of virtual time) but has no get_index(): legal when it is
    collected alone - the engine then passes no index down and the detector reports what it has."""

    def __init__(self, sim, name, spec, world):
        super().__init__(sim, name, spec, world)
        self._rate = spec.get("rate", 10.0)  # frames per virtual second
        self._max = spec.get("frames", 5)
        self._t0 = None
        self._last = 0
        self._res_emitted = False
        self._bundle = None
        self._stall = spec.get("stall", [])  # [(t_from, t_to)] relative to kickoff

    def _index_now(self):
        if self._t0 is None:
            return 0
        t = self.sim.now - self._t0
        eff = t
        for a, b in self._stall:
            if t > a:
                eff -= min(t, b) - a
        return int(min(self._max, max(0, eff * self._rate + 1e-9)))

    def kickoff(self):
        f, n = self._enter("kickoff")
        self._t0 = self.sim.now
        return self._status("kickoff", f, n, default_delay=0.0)

    def complete(self):
        f, n = self._enter("complete")
        remaining = max(0.0, self._max / self._rate + sum(b - a for a, b in self._stall) - (self.sim.now - (self._t0 or self.sim.now)))
        self.delays["complete"] = remaining
        return self._status("complete", f, n)

    def describe_collect(self):
        def impl():
            self._enter("describe_collect")
            return {
                self.name: {"source": f"SIM:{self.name}", "dtype": "array", "shape": [1, 2, 2], "external": "STREAM:"}
            }

        return self._maybe_async("describe_collect", impl)

    def collect_asset_docs(self, index=None):
        from event_model import compose_stream_resource

        self._enter("collect_asset_docs", index=index)
        if index is None:
            index = self._index_now()
            self.sim.record("index", dev=self.name, index=index)
        docs = []
        if index > self._last:
            if not self._res_emitted:
                self._bundle = compose_stream_resource(
                    mimetype="application/x-sim",
                    uri=f"file://localhost/sim/{self.name}",
                    data_key=self.name,
                    parameters={},
                )
                docs.append(("stream_resource", self._bundle.stream_resource_doc))
                self._res_emitted = True
            sd = self._bundle.compose_stream_datum({"start": self._last, "stop": index})
            docs.append(("stream_datum", sd))
            self.sim.record("frames", dev=self.name, start=self._last, stop=index)
            self._last = index
        return iter(docs)


class StreamDetector(LoneStreamDetector):
    """WritesStreamAssets in full: with get_index(), so that several can be collected together."""

    def get_index(self):
        def impl():
            self._enter("get_index")
            i = self._index_now()
            self.sim.record("index", dev=self.name, index=i)
            return i

        return self._maybe_async("get_index", impl)


class AssetDetector(_Base, ReadableMixin, StageableMixin, TriggerableMixin):
    """Legacy external-asset detector (WritesExternalAssets): each trigger makes one Datum; read() returns the
    datum_id under an 'external' data key plus one internal number; resource + datums come from
    collect_asset_docs().  `frame_kwarg`: put a 'frame' index into datum_kwargs (area-detector style)."""

    def __init__(self, sim, name, spec, world):
        super().__init__(sim, name, spec, world)
        self._resource = None
        self._pending = []
        self._ntrig = 0
        self._datum_id = None
        self._spec_name = spec.get("spec", "AD_HDF5_SWMR_SLICE")

    def stage(self):
        self._resource = None
        return StageableMixin.stage(self)

    def trigger(self):
        from event_model import compose_resource

        f, n = self._enter("trigger")
        if self.spec.get("resource_per_point"):
            # one file (Resource) per point, its single frame numbered 0 each time
            self._resource = None
            self._ntrig_in_resource = 0
        if self._resource is None:
            kwargs = dict(self.spec.get("resource_kwargs", {"path": "/entry/data", "frame_per_point": 1}))
            self._resource = compose_resource(
                spec=self._spec_name, root="/sim/root/", resource_path=f"{self.name}/file_{n}.h5", resource_kwargs=kwargs, start={"uid": "x"}
            )
            r = dict(self._resource.resource_doc)
            r.pop("run_start", None)
            self._pending.append(("resource", r))
        dk = {"point_number": self._ntrig}
        if self.spec.get("frame_kwarg"):
            dk = {"frame": 0 if self.spec.get("resource_per_point") else self._ntrig}
        d = self._resource.compose_datum(datum_kwargs=dk)
        self._ntrig += 1
        self._datum_id = d["datum_id"]
        self._pending.append(("datum", d))
        return self._status("trigger", f, n, default_delay=self.spec.get("trigger_delay", 0.01))

    def _reading(self):
        t = self.sim.wall_time()
        return {
            self.name + "_image": {"value": self._datum_id, "timestamp": t},
            self.name + "_stat": {"value": float(self._ntrig), "timestamp": t},
        }

    def _describe(self):
        return {
            self.name + "_image": {"source": f"SIM:{self.name}:image", "dtype": "array", "shape": [2, 2], "external": "FILESTORE:"},
            self.name + "_stat": {"source": f"SIM:{self.name}:stat", "dtype": "number", "shape": []},
        }

    def collect_asset_docs(self):
        self._enter("collect_asset_docs")
        docs, self._pending = self._pending, []
        return iter(docs)


KINDS = {
    "assetdet": AssetDetector,
    "motor": Motor,
    "pmotor": PausableMotor,
    "det": Detector,
    "pdet": PausableDetector,
    "signal": Signal,
    "csignal": ConfigSignal,
    "flyer": Flyer,
    "pageflyer": PageFlyer,
    "streamdet": StreamDetector,
    "lonestreamdet": LoneStreamDetector,
}


def build_world(sim, specs):
    """specs: {name: {"kind": ..., ...}} -> {name: device}"""
    world = {}
    # sorted: the world must not depend on dict order (replay files are written with sorted keys)
    for i, (name, spec) in enumerate(sorted(specs.items())):
        spec = dict(spec)
        spec.setdefault("hash", 1000 + i)
        world[name] = KINDS[spec["kind"]](sim, name, spec, world)
    for name, spec in specs.items():
        if spec.get("parent"):
            world[name].parent = world[spec["parent"]]
    return world
