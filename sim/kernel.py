"""Deterministic simulation kernel for bluesky.

One process, one thread.  The asyncio loop that the RunEngine normally runs on a
background thread is a `SimLoop`: a real `asyncio.BaseEventLoop` (real Task / Future /
Handle / TimerHandle machinery) whose clock is virtual and which is *stepped* one handle at
a time by `Sim.step()`.  Everything that blocks a non-loop thread in production
(`threading.Event.wait`, `concurrent.futures.Future.result`) becomes "drive the simulation
until the condition holds" (`Sim.drive`).  External actors (other threads: requesters,
device/control-system threads) run *between* loop handles.

See /verif/DESIGN.md section 2.
"""

from __future__ import annotations

import asyncio
import concurrent.futures
import heapq
import random
import sys
import threading as _real_threading
import time as _real_time
import uuid as _real_uuid
from asyncio import events, futures as aio_futures

# --------------------------------------------------------------------------------------
# control-flow exceptions of the simulator (BaseException: never swallowed by the code
# under test's `except Exception`)


class SimAbort(BaseException):
    """Base class for simulator-level aborts of a case."""


class SimStuck(SimAbort):
    """A caller is blocked, nothing is runnable and no timer is pending."""


class SimBudget(SimAbort):
    """The step or virtual-time budget of the case was exhausted."""


class SimDeadlock(SimAbort):
    """The loop thread blocked itself forever (infinite wait inside a loop handle)."""


class SimInfeasible(SimAbort):
    """The schedule cannot be expressed by a single-threaded simulation (a simulated thread
    would have to block on a lock held by a caller that is suspended further up the stack).
    The case is discarded and counted; it is neither a violation nor a harness error."""


CURRENT: "Sim | None" = None


def current() -> "Sim":
    if CURRENT is None:
        raise RuntimeError("no simulation is active")
    return CURRENT


# --------------------------------------------------------------------------------------
# the loop


class SimLoop(asyncio.BaseEventLoop):
    """A virtual-time event loop that never blocks and is stepped from outside.

    The ready queue is FIFO and timers are moved to the ready queue at iteration
    boundaries exactly like `BaseEventLoop._run_once` does, so the order in which handles
    run is the order a real loop would produce for the same arrival order.
    """

    def __init__(self, sim: "Sim"):
        super().__init__()
        self._sim = sim
        self._batch_left = 0
        self._clock_resolution = 1e-9
        self.exceptions = []  # contexts passed to call_exception_handler
        self._thread_id = _real_threading.get_ident()

    # -- clock
    def time(self):
        return self._sim.now

    # -- the RunEngine asks whether a thread must be started
    def is_running(self):
        return True

    def is_closed(self):
        return False

    # -- no selector, no self-pipe
    def _write_to_self(self):
        pass

    def _process_events(self, event_list):
        pass

    def call_exception_handler(self, context):
        self.exceptions.append(context)
        self._sim.record("loop_exc", message=str(context.get("message")), exc=repr(context.get("exception")))

    # -- stepping
    def _prune_cancelled_head(self):
        while self._scheduled and self._scheduled[0]._cancelled:
            self._timer_cancelled_count -= 1
            h = heapq.heappop(self._scheduled)
            h._scheduled = False

    def next_timer(self):
        self._prune_cancelled_head()
        if self._scheduled:
            return self._scheduled[0]._when
        return None

    def _begin_iteration(self):
        """Move due timers to the ready queue; fix the size of this iteration's batch."""
        self._prune_cancelled_head()
        end_time = self.time() + self._clock_resolution
        while self._scheduled:
            h = self._scheduled[0]
            if h._when >= end_time:
                break
            h = heapq.heappop(self._scheduled)
            h._scheduled = False
            self._ready.append(h)
        self._batch_left = len(self._ready)

    def has_work_now(self):
        if self._ready:
            return True
        nt = self.next_timer()
        return nt is not None and nt < self.time() + self._clock_resolution

    def run_one(self):
        """Run exactly one (non-cancelled) handle if one is runnable now.

        Returns True if a handle ran."""
        while True:
            if self._batch_left <= 0:
                self._begin_iteration()
                if self._batch_left <= 0:
                    return False
            h = self._ready.popleft()
            self._batch_left -= 1
            if h._cancelled:
                continue
            sim = self._sim
            prev = events._get_running_loop()
            events._set_running_loop(self)
            sim.in_handle += 1
            try:
                h._run()
            finally:
                sim.in_handle -= 1
                events._set_running_loop(prev)
            h = None
            return True

    # `run_until_complete`/`run_forever` support (used by RemoteDispatcher.start)
    def _run_once(self):
        sim = self._sim
        if not self.run_one():
            if not sim.advance_idle():
                # nothing will ever happen
                raise SimStuck("run_forever: nothing runnable and no timer pending")
        sim.after_handle()

    def run_forever(self):
        self._stopping = False
        while not self._stopping:
            self._run_once()
        self._stopping = False

    def run_until_complete(self, future):
        future = asyncio.ensure_future(future, loop=self)
        while not future.done():
            self._run_once()
        return future.result()

    def stop(self):
        self._stopping = True

    def close(self):
        pass


# --------------------------------------------------------------------------------------
# blocking primitives


class SimEvent:
    """Stand-in for `threading.Event` whose wait() drives the simulation."""

    def __init__(self):
        self._flag = False

    def is_set(self):
        return self._flag

    isSet = is_set

    def set(self):
        self._flag = True

    def clear(self):
        self._flag = False

    def wait(self, timeout=None):
        if self._flag:
            return True
        sim = current()
        sim.drive(self.is_set, timeout=timeout, what="Event.wait")
        return self._flag


class SimLock:
    """Stand-in for a non-reentrant `threading.Lock` (used by suspenders).

    All simulated threads share one real thread, so a second acquire can only come from a
    nested drive while the holder is suspended up the stack: that schedule is infeasible here.
    While a SimLock is held the simulator runs loop handles only (no other external actor)."""

    def __init__(self):
        self._held = False

    def acquire(self, blocking=True, timeout=-1):
        if self._held:
            if not blocking:
                return False
            raise SimInfeasible("lock acquired while held by a suspended simulated thread")
        self._held = True
        sim = CURRENT
        if sim is not None:
            sim.locks_held += 1
        return True

    def release(self):
        if not self._held:
            raise RuntimeError("release unlocked lock")
        self._held = False
        sim = CURRENT
        if sim is not None:
            sim.locks_held -= 1

    def locked(self):
        return self._held

    def __enter__(self):
        self.acquire()
        return True

    def __exit__(self, *a):
        self.release()


class SimCFuture(concurrent.futures.Future):
    """`concurrent.futures.Future` whose result()/exception() drive the simulation."""

    def result(self, timeout=None):
        if not self.done():
            current().drive(self.done, timeout=timeout, what="Future.result")
        return super().result(timeout=0)

    def exception(self, timeout=None):
        if not self.done():
            current().drive(self.done, timeout=timeout, what="Future.exception")
        return super().exception(timeout=0)


_real_run_coroutine_threadsafe = asyncio.run_coroutine_threadsafe


def sim_run_coroutine_threadsafe(coro, loop):
    if not isinstance(loop, SimLoop):
        return _real_run_coroutine_threadsafe(coro, loop)
    if not asyncio.iscoroutine(coro):
        raise TypeError("A coroutine object is required")
    future = SimCFuture()

    def callback():
        try:
            aio_futures._chain_future(asyncio.ensure_future(coro, loop=loop), future)
        except (SystemExit, KeyboardInterrupt):
            raise
        except BaseException as exc:
            if future.set_running_or_notify_cancel():
                future.set_exception(exc)
            raise

    loop.call_soon_threadsafe(callback)
    return future


class _ModuleProxy:
    """Delegates to a real module except for the names overridden."""

    def __init__(self, real, **overrides):
        self.__dict__["_real"] = real
        self.__dict__["_over"] = overrides

    def __getattr__(self, name):
        over = self.__dict__["_over"]
        if name in over:
            return over[name]
        return getattr(self.__dict__["_real"], name)


class _DummyThread:
    ident = 0
    name = "sim-loop"

    def is_alive(self):
        return True


# --------------------------------------------------------------------------------------
# the simulator


class _Ext:
    __slots__ = ("when", "seq", "fn", "label", "cancelled")

    def __init__(self, when, seq, fn, label):
        self.when = when
        self.seq = seq
        self.fn = fn
        self.label = label
        self.cancelled = False

    def __lt__(self, other):
        return (self.when, self.seq) < (other.when, other.seq)

    def cancel(self):
        self.cancelled = True


class Sim:
    """One simulated world: a SimLoop, a virtual clock, external events, a history."""

    def __init__(self, seed=0, *, handle_cost=0.0, max_steps=200_000, max_time=1e7, wall_offset=1_700_000_000.0):
        self.seed = seed
        self.now = 0.0
        self.handle_cost = handle_cost
        self.max_steps = max_steps
        self.max_time = max_time
        self.nsteps = 0  # loop handles executed
        self.in_handle = 0
        self._ext: list[_Ext] = []
        self._ext_seq = 0
        self._seq = 0
        self.history: list[tuple] = []
        self.rng = random.Random(f"sched-{seed}")
        self._uuid_rng = random.Random(f"uuid-{seed}")
        self.wall_offset = wall_offset
        self.wall_skew = 0.0  # added to the wall clock (clock jumps)
        self.step_hooks = []  # callables run at every handle boundary; return True if they acted
        self.depth = 0
        self.locks_held = 0
        self.loop = SimLoop(self)
        self.fault_counts = {}
        self.probes = {}
        self.contexts = set()  # distinct situations in which an external request landed (coverage measure)

    # -- bookkeeping
    def record(self, kind, /, **data):
        self._seq += 1
        ev = (self._seq, kind, self.nsteps, round(self.now, 9), data)
        self.history.append(ev)
        return ev

    def count_fault(self, kind, n=1):
        self.fault_counts[kind] = self.fault_counts.get(kind, 0) + n

    def probe(self, name, n=1):
        self.probes[name] = self.probes.get(name, 0) + n

    # -- clocks and ids
    def wall_time(self):
        return self.wall_offset + self.now + self.wall_skew

    def uuid4(self):
        return _real_uuid.UUID(int=self._uuid_rng.getrandbits(128), version=4)

    # -- external (non-loop-thread) timed events
    def call_ext(self, delay, fn, label=""):
        self._ext_seq += 1
        e = _Ext(self.now + max(0.0, delay), self._ext_seq, fn, label)
        heapq.heappush(self._ext, e)
        return e

    def call_ext_at(self, when, fn, label=""):
        """Like call_ext but at an absolute virtual time (no float round trip: keeps equal times equal)."""
        self._ext_seq += 1
        e = _Ext(max(when, self.now), self._ext_seq, fn, label)
        heapq.heappush(self._ext, e)
        return e

    def _next_ext(self):
        while self._ext and self._ext[0].cancelled:
            heapq.heappop(self._ext)
        return self._ext[0].when if self._ext else None

    def run_external(self, fn, label=""):
        """Run `fn` as an external actor: outside any loop handle, no running loop."""
        prev = events._get_running_loop()
        events._set_running_loop(None)
        saved = self.in_handle
        self.in_handle = 0
        try:
            return fn()
        finally:
            self.in_handle = saved
            events._set_running_loop(prev)

    # -- stepping
    def advance_idle(self):
        """Nothing is runnable now: jump the clock to the next timer / external event.

        Returns False if there is nothing to jump to."""
        cands = [t for t in (self.loop.next_timer(), self._next_ext()) if t is not None]
        if not cands:
            return False
        t = min(cands)
        if t > self.now:
            self.now = t
        if self.now > self.max_time:
            raise SimBudget(f"virtual time budget exhausted at t={self.now}")
        return True

    def after_handle(self):
        self.nsteps += 1
        self.now += self.handle_cost
        if self.nsteps > self.max_steps:
            raise SimBudget(f"step budget exhausted after {self.nsteps} handles")

    def step(self):
        """One scheduling decision.  Returns False if the world is quiescent."""
        if self.locks_held:
            # a simulated thread holds a lock inside a nested drive: only the loop thread runs
            if self.loop.run_one():
                self.after_handle()
                return True
            nx = self._next_ext()
            nt = self.loop.next_timer()
            if nx is not None and (nt is None or nx <= nt):
                # only deadline markers may fire; anything else waits for the lock
                if self._ext[0].label in ("deadline", "inject-time"):
                    e = heapq.heappop(self._ext)
                    self.now = max(self.now, e.when)
                    return True
                if nt is None:
                    raise SimInfeasible("external event due while a simulated thread holds a lock")
            if nt is not None:
                self.now = max(self.now, nt)
                return True
            return False
        # 1. injections anchored at handle boundaries
        for hook in list(self.step_hooks):
            if hook(self):
                return True
        # 2. external timed events that are due
        nx = self._next_ext()
        if nx is not None and nx <= self.now:
            e = heapq.heappop(self._ext)
            self.run_external(e.fn, e.label)
            return True
        # 3. one loop handle
        if self.loop.run_one():
            self.after_handle()
            return True
        # 4. idle: advance the clock
        return self.advance_idle()

    def drive(self, until, timeout=None, what=""):
        """Block the calling (simulated) thread until `until()` is true.

        Called from outside a loop handle: run the world.  Called from inside a loop
        handle (the loop thread blocks itself): nothing else can run; a finite timeout
        simply elapses, an infinite wait is a deadlock of the system under test."""
        if until():
            return True
        if self.in_handle:
            if timeout is None:
                raise SimDeadlock(f"loop thread blocked forever in {what}")
            self.count_fault("loop_thread_stall")
            self.now += timeout
            return until()
        deadline = None
        marker = None
        if timeout is not None:
            deadline = self.now + timeout
            marker = self.call_ext(timeout, lambda: None, "deadline")
        self.depth += 1
        try:
            if self.depth > 40:
                raise SimBudget("nested drive depth > 40")
            while not until():
                if deadline is not None and self.now >= deadline:
                    return until()
                if not self.step():
                    raise SimStuck(f"blocked in {what}: nothing runnable, no timer pending")
            return True
        finally:
            self.depth -= 1
            if marker is not None:
                marker.cancel()

    def settle(self, max_handles=None):
        """Let the loop thread run on its own (the user thread is idle) until nothing is
        runnable *now* (does not advance the clock) or `max_handles` handles ran."""
        n = 0
        while max_handles is None or n < max_handles:
            acted = False
            for hook in list(self.step_hooks):
                if hook(self):
                    acted = True
                    break
            if acted:
                continue
            nx = self._next_ext()
            if nx is not None and nx <= self.now:
                e = heapq.heappop(self._ext)
                self.run_external(e.fn, e.label)
                continue
            if self.loop.run_one():
                self.after_handle()
                n += 1
                continue
            break
        return n

    def run_for(self, duration):
        """Let virtual time pass (user thread sleeps)."""
        flag = []
        self.call_ext(duration, lambda: flag.append(1), "run_for")
        self.drive(lambda: bool(flag), what="run_for")


# --------------------------------------------------------------------------------------
# installing / removing the seams


class _NullWriter:
    def write(self, s):
        return len(s)

    def flush(self):
        pass

    def isatty(self):
        return False


class installed:
    """Context manager: make `sim` the world for bluesky for the duration of a case."""

    def __init__(self, sim: Sim, quiet=True):
        self.sim = sim
        self.quiet = quiet

    def __enter__(self):
        global CURRENT
        import bluesky.run_engine as re_mod
        import bluesky.suspenders as sus_mod
        import bluesky.utils as utils_mod

        if CURRENT is not None:
            raise RuntimeError("nested simulations are not supported")
        CURRENT = self.sim
        self._saved = {
            "re_threading": re_mod.threading,
            "sus_threading": sus_mod.threading,
            "rcts": asyncio.run_coroutine_threadsafe,
            "time": _real_time.time,
            "uuid4": _real_uuid.uuid4,
            "stdout": sys.stdout,
            "loop_to_thread": re_mod._ensure_event_loop_running.loop_to_thread,
            "bs_loop": re_mod._bluesky_event_loop,
        }
        proxy = _ModuleProxy(_real_threading, Event=SimEvent, Lock=SimLock)
        re_mod.threading = proxy
        sus_mod.threading = proxy
        asyncio.run_coroutine_threadsafe = sim_run_coroutine_threadsafe
        asyncio.tasks.run_coroutine_threadsafe = sim_run_coroutine_threadsafe
        _real_time.time = self.sim.wall_time
        _real_uuid.uuid4 = self.sim.uuid4
        re_mod._ensure_event_loop_running.loop_to_thread = {self.sim.loop: _DummyThread()}
        utils_mod.already_warned.clear()
        if self.quiet:
            sys.stdout = _NullWriter()
        return self.sim

    def __exit__(self, *exc):
        global CURRENT
        import bluesky.run_engine as re_mod
        import bluesky.suspenders as sus_mod

        s = self._saved
        re_mod.threading = s["re_threading"]
        sus_mod.threading = s["sus_threading"]
        asyncio.run_coroutine_threadsafe = s["rcts"]
        asyncio.tasks.run_coroutine_threadsafe = s["rcts"]
        _real_time.time = s["time"]
        _real_uuid.uuid4 = s["uuid4"]
        sys.stdout = s["stdout"]
        re_mod._ensure_event_loop_running.loop_to_thread = s["loop_to_thread"]
        re_mod._bluesky_event_loop = s["bs_loop"]
        # drop whatever is left on the loop so that nothing leaks into the next case
        loop = self.sim.loop
        loop._ready.clear()
        loop._scheduled.clear()
        CURRENT = None
        return False
