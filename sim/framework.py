"""Check driver: seeded search over cases on a process pool, evidence, replay, shrinking.

A property module (`/verif/oracles/cXX.py`) exports

    ID            "C07"
    TITLE         one line
    cases(seed, tier) -> iterable of explicit cases (may perform deterministic dry runs)
    check(res)    -> list of violations  {"cls": str, "detail": str, "facts": {...}}
    nontrivial(res) -> bool              (optional; default: some injection/fault fired)
    trace_key(res)  -> hashable          (optional; default: normalised message/state trace)
    QUICK, THOROUGH : dict(batches=int, wall=float seconds cap)
    COMPONENTS_REAL / COMPONENTS_STUB, ASSUMPTIONS, RULE (strings for the evidence file)
    KNOWN_PREDICATES: {name: fn(violation, res) -> bool}   (optional)
"""

from __future__ import annotations

import concurrent.futures as cf
import copy
import faulthandler
import hashlib
import importlib
import json
import multiprocessing
import os
import signal
import subprocess
import sys
import time
import traceback

ROOT = os.path.dirname(os.path.dirname(os.path.abspath(__file__)))
_perf = time.perf_counter


class CaseTimeout(BaseException):
    pass


def _alarm(signum, frame):
    raise CaseTimeout("wall-clock watchdog")


def guarded(fn, timeout):
    """Run fn() under a wall-clock watchdog (SIGALRM); raises CaseTimeout."""
    old = signal.signal(signal.SIGALRM, _alarm)
    signal.setitimer(signal.ITIMER_REAL, timeout)
    try:
        return fn()
    finally:
        signal.setitimer(signal.ITIMER_REAL, 0)
        signal.signal(signal.SIGALRM, old)


def load(pid):
    return importlib.import_module(f"oracles.{pid.lower()}")


def default_trace_key(res):
    h = hashlib.sha256()
    for e in res.history:
        k = e[1]
        d = e[4]
        if k == "msg":
            h.update(f"m{d['cmd']}|{d['obj']}|{d['state']};".encode())
        elif k == "state":
            h.update(f"s{d['new']};".encode())
        elif k == "inject_end":
            h.update(f"i{d['do']}|{d['outcome']}|{d['state0']};".encode())
        elif k == "call_end":
            h.update(f"c{d['api']}|{d['outcome']}|{d['exc']}|{d['state']};".encode())
        elif k == "doc":
            h.update(f"d{d['name']};".encode())
    return h.hexdigest()[:20]


def default_nontrivial(res):
    for e in res.history:
        if e[1] == "inject_end" and e[4]["outcome"] in ("ok", "interrupted"):
            return True
    return bool(res.sim.fault_counts)


def run_and_check(mod, case):
    """Run one case; returns (res, violations, harness_error)."""
    from .runner import run_case

    # every case is run in its JSON-normalised form, exactly as a replay file would give it back
    case = json.loads(json.dumps(case, sort_keys=True))
    res = getattr(mod, "run_case", run_case)(case)  # other engines (zmq_sim, fs_sim) bring their own runner
    if res.aborted and res.aborted[0] == "SimInfeasible":
        # schedule not expressible single-threaded (see kernel.SimInfeasible): discarded, counted
        res.sim.probe("discarded_infeasible_schedule")
        return res, []
    viols = mod.check(res)
    return res, viols


def _case_summary(case):
    """A compact, readable rendering for evidence samples."""
    s = json.dumps(case, sort_keys=True, default=repr)
    if len(s) > 4000:
        s = s[:4000] + "...(truncated)"
    return json.loads(s) if len(s) <= 4000 and s.endswith("}") else s


CORPUS_SEED = -1


def corpus_files(pid):
    d = os.path.join(ROOT, "corpus", pid)
    return sorted(os.path.join(d, f) for f in os.listdir(d) if f.endswith(".json")) if os.path.isdir(d) else []


def corpus_cases(pid):
    for path in corpus_files(pid):
        with open(path) as f:
            case = json.load(f)["case"]
        case["variant"] = "corpus:" + os.path.basename(path)
        yield case


def worker_batch(args):
    """Run all cases of one batch seed.  Returns a picklable summary."""
    pid, seed, tier, case_timeout = args
    sys.setrecursionlimit(10000)
    mod = load(pid)
    out = {
        "seed": seed,
        "evals": 0,
        "nontrivial_keys": [],
        "violations": [],
        "harness_errors": [],
        "faults": {},
        "probes": {},
        "vtime": 0.0,
        "steps": 0,
        "samples": [],
        "contexts": [],
        "notes": {},
        "known": {},
    }
    known = load_known()
    nontrivial =getattr(mod, "nontrivial", default_nontrivial)
    trace_key = getattr(mod, "trace_key", default_trace_key)
    old = signal.signal(signal.SIGALRM, _alarm)
    try:
        it = iter(corpus_cases(pid)) if seed == CORPUS_SEED else iter(mod.cases(seed, tier))
        while True:
            signal.setitimer(signal.ITIMER_REAL, case_timeout)
            try:
                try:
                    case = next(it)
                except StopIteration:
                    break
                res, viols = run_and_check(mod, case)
            except CaseTimeout:
                out["harness_errors"].append({"seed": seed, "error": "case wall-clock timeout"})
                break
            except Exception:
                out["harness_errors"].append({"seed": seed, "error": traceback.format_exc()[-1500:]})
                break
            finally:
                signal.setitimer(signal.ITIMER_REAL, 0)
            out["evals"] += 1
            out["vtime"] += res.sim.now
            out["steps"] += res.sim.nsteps
            for k, v in res.sim.fault_counts.items():
                out["faults"][k] = out["faults"].get(k, 0) + v
            for k, v in res.sim.probes.items():
                out["probes"][k] = out["probes"].get(k, 0) + v
            for k, v in getattr(res, "notes", {}).items():
                out["notes"][k] = out["notes"].get(k, 0) + v
            out["contexts"] = sorted(set(out["contexts"]) | res.sim.contexts)
            if nontrivial(res):
                out["nontrivial_keys"].append(trace_key(res))
            if len(out["samples"]) < 1:
                out["samples"].append({"case": case, "outcome": _outcome(res)})
            for v in viols:
                k = match_known(mod, pid, v, res, known)
                if k is not None:
                    out["known"][k["id"]] = out["known"].get(k["id"], 0) + 1
                else:
                    out["violations"].append({"violation": v, "case": case})
            if len(out["violations"]) >= 3:
                break
    finally:
        signal.setitimer(signal.ITIMER_REAL, 0)
        signal.signal(signal.SIGALRM, old)
    return out


def _outcome(res):
    calls = [e[4] for e in res.history if e[1] == "call_end"]
    return {
        "calls": [{"api": c["api"], "outcome": c["outcome"], "exc": c["exc"], "state": c["state"]} for c in calls],
        "msgs": sum(1 for e in res.history if e[1] == "msg"),
        "docs": sum(1 for e in res.history if e[1] == "doc"),
        "handles": res.sim.nsteps,
        "virtual_seconds": round(res.sim.now, 6),
        "aborted": res.aborted,
    }


# --------------------------------------------------------------------------------------
# known findings


def load_known():
    p = os.path.join(ROOT, "known_findings.json")
    if not os.path.exists(p):
        return []
    with open(p) as f:
        return json.load(f).get("findings", [])


def match_known(mod, pid, violation, res, known):
    preds = getattr(mod, "KNOWN_PREDICATES", {})
    for k in known:
        if (k.get("property") != pid and pid not in k.get("properties", [])) or k.get("status", "open") != "open":
            continue
        fn = preds.get(k.get("predicate"))
        if fn is None:
            continue
        try:
            if fn(violation, res):
                return k
        except Exception:
            continue
    return None


# --------------------------------------------------------------------------------------
# shrinking


def _same(mod, case, cls, known, pid):
    try:
        res, viols = guarded(lambda: run_and_check(mod, case), 60.0)
    except (Exception, CaseTimeout):
        return False
    for v in viols:
        if v["cls"] == cls and match_known(mod, pid, v, res, known) is None:
            return True
    return False


def _valid(mod, case):
    fn = getattr(mod, "valid_case", None)
    if fn is None:
        return True
    try:
        return bool(fn(case))
    except Exception:
        return False


def _drop_each(lst):
    for i in range(len(lst)):
        yield lst[:i] + lst[i + 1 :]


def _shrink_candidates(case, shrink_plan=True):
    """Yield structurally smaller variants of a case (one edit each)."""
    # 1. drop whole script steps (not the first call)
    script = case.get("script", [])
    for i in range(len(script) - 1, 0, -1):
        if script[i].get("tag"):
            continue
        c = copy.deepcopy(case)
        del c["script"][i]
        yield c
    # 2. drop injections / decisions
    for si, step in enumerate(script):
        for key in ("inject", "decisions"):
            lst = step.get(key) or []
            for i in range(len(lst)):
                c = copy.deepcopy(case)
                del c["script"][si][key][i]
                yield c
        for di, d in enumerate(step.get("decisions") or []):
            for i in range(len(d.get("inject") or [])):
                c = copy.deepcopy(case)
                del c["script"][si]["decisions"][di]["inject"][i]
                yield c
    # 3. drop device faults / async flavours
    for name, spec in case.get("devices", {}).items():
        for key in ("faults", "async"):
            for k in list((spec.get(key) or {}).keys()):
                c = copy.deepcopy(case)
                del c["devices"][name][key][k]
                yield c
    # 4. drop callbacks' raise schedule, suspenders
    for cid, spec in case.get("callbacks", {}).items():
        if spec.get("raise_at"):
            c = copy.deepcopy(case)
            c["callbacks"][cid]["raise_at"] = {}
            yield c
    # 5. plan statements: drop / unwrap / shorten repeats
    for si, step in enumerate(script):
        if step.get("do") != "call" or step.get("tag") or not shrink_plan:
            continue
        for path, node_list in _walk_lists(step.get("plan", []), ("plan",)):
            for i in range(len(node_list)):
                c = copy.deepcopy(case)
                tgt = _get_path(c["script"][si], path)
                node = tgt[i]
                del tgt[i]
                yield c
                if node.get("op") in ("repeat",) and node.get("n", 1) > 1:
                    c = copy.deepcopy(case)
                    _get_path(c["script"][si], path)[i]["n"] = node["n"] - 1
                    yield c
                if node.get("op") in ("try", "seq", "repeat", "wrap", "pyfinally") and node.get("body"):
                    c = copy.deepcopy(case)
                    tgt2 = _get_path(c["script"][si], path)
                    tgt2[i : i + 1] = copy.deepcopy(node["body"])
                    yield c
    # 6. simplify re config
    for key in ("record_interruptions", "call_returns_result", "ignore_callback_exceptions"):
        if case.get("re", {}).get(key):
            c = copy.deepcopy(case)
            c["re"][key] = False
            yield c
    if case.get("re", {}).get("preprocessors"):
        for i in range(len(case["re"]["preprocessors"])):
            c = copy.deepcopy(case)
            del c["re"]["preprocessors"][i]
            yield c
    if case.get("sim", {}).get("handle_cost"):
        c = copy.deepcopy(case)
        c["sim"]["handle_cost"] = 0.0
        yield c


def _walk_lists(body, path):
    yield path, body
    for i, node in enumerate(body):
        if not isinstance(node, dict):
            continue
        for k in ("body", "else", "finally"):
            if isinstance(node.get(k), list):
                yield from _walk_lists(node[k], path + (i, k))
        for hi, h in enumerate(node.get("handlers", []) or []):
            if isinstance(h.get("body"), list):
                yield from _walk_lists(h["body"], path + (i, "handlers", hi, "body"))


def _get_path(root, path):
    cur = root
    for p in path:
        cur = cur[p]
    return cur


def _twin(case):
    from .gen import strip_faults

    t = strip_faults(case)
    for step in t.get("script", []):
        step.pop("decisions", None)
    return t


def shrink(mod, pid, case, cls, known, budget_s=60.0):
    t0 = _perf()
    best = case
    improved = True
    tried = 0
    if getattr(mod, "NO_SHRINK", False):
        return case, 0
    # a candidate whose fault-free twin already shows the violation is a different (workload) problem,
    # unless the original case was like that too
    own = getattr(mod, "shrink_candidates", None)
    if own is not None:
        # engines with their own case format (fs_sim, zmq_sim, ...): plain greedy one-edit shrinking; the
        # module's candidates must themselves keep the case inside its validity contract
        while improved and _perf() - t0 < budget_s:
            improved = False
            for cand in own(best):
                if _perf() - t0 > budget_s:
                    break
                tried += 1
                if _valid(mod, cand) and _same(mod, cand, cls, known, pid):
                    best = cand
                    improved = True
                    break
        return best, tried
    twin_bad = _same(mod, _twin(case), cls, known, pid)
    while improved and _perf() - t0 < budget_s:
        improved = False
        for cand in _shrink_candidates(best, getattr(mod, "SHRINK_PLAN", True)):
            if _perf() - t0 > budget_s:
                break
            tried += 1
            if not _valid(mod, cand):
                continue
            if not twin_bad and _twin(cand) != cand and _same(mod, _twin(cand), cls, known, pid):
                continue
            if not twin_bad and _twin(cand) == cand:
                continue
            if _same(mod, cand, cls, known, pid):
                best = cand
                improved = True
                break
    return best, tried


# --------------------------------------------------------------------------------------
# replay files


def write_replay(pid, case, violation, res_digest):
    d = os.path.join(ROOT, "replays")
    os.makedirs(d, exist_ok=True)
    blob = json.dumps(case, sort_keys=True, default=repr)
    name = f"{pid}-{case.get('seed', 0)}-{hashlib.sha256(blob.encode()).hexdigest()[:10]}.json"
    path = os.path.join(d, name)
    with open(path, "w") as f:
        json.dump(
            {"property": pid, "case": case, "expect": {"cls": violation["cls"], "digest": res_digest}, "violation": violation},
            f,
            indent=1,
            sort_keys=True,
            default=repr,
        )
    return path


def replay(pid, path, quiet=False):
    """Re-run a replay file.  Exit code semantics: returns list of violations reproduced."""
    mod = load(pid)
    with open(path) as f:
        blob = json.load(f)
    res, viols = run_and_check(mod, blob["case"])
    want = blob.get("expect", {})
    hits = [v for v in viols if v["cls"] == want.get("cls")] if want.get("cls") else viols
    return res, viols, hits, want


# --------------------------------------------------------------------------------------
# the main search loop


def run_check(pid, tier="quick", seed=0, workers=None, budget=None, batches=None, evidence=True):
    # evidence/<id>.json describes runs against /repo's working tree only: never written when the code under test
    # comes from a scratch worktree (VERIF_REPO_SRC: reverted fixes, seeded changes) or when the caller says so
    if os.environ.get("VERIF_REPO_SRC"):
        evidence = False
    mod = load(pid)
    cfg = dict(getattr(mod, "QUICK" if tier == "quick" else "THOROUGH"))
    if tier == "quick":
        # the per-module figures date from the first build; the quick tier runs twice as many batch seeds now (still
        # under the same wall-clock cap, which ends the search first on a slow or busy machine)
        cfg["batches"] = int(cfg["batches"] * float(os.environ.get("VERIF_QUICK_SCALE", "2")))
    if batches is not None:
        cfg["batches"] = batches
    if budget is not None:
        cfg["wall"] = budget
    workers = workers or int(os.environ.get("VERIF_WORKERS", os.cpu_count() or 4))
    # modules whose subject needs a very heavy import (tiled: dask, pandas, pyarrow) run fewer workers: sixteen
    # concurrent imports contend on the file system for longer than the whole search takes
    workers = min(workers, getattr(mod, "MAX_WORKERS", {}).get(tier, workers)) if hasattr(mod, "MAX_WORKERS") else workers
    # wall-clock cap for one generator step (a dry run plus one case: milliseconds on an idle machine; the margin is
    # for a machine that is heavily loaded by other work)
    case_timeout = cfg.get("case_timeout", 240.0)
    known = load_known()
    t0 = _perf()
    agg = {
        "evals": 0,
        "keys": set(),
        "faults": {},
        "probes": {},
        "notes": {},
        "vtime": 0.0,
        "steps": 0,
        "samples": [],
        "harness_errors": [],
        "violations": [],
        "known_hits": {},
        "batches_done": 0,
        "contexts": set(),
    }
    seeds = [seed * 1_000_003 + i for i in range(cfg["batches"])]
    if corpus_files(pid):
        # the corpus of schedules that deeper searches found (corpus/<ID>/*.json, minimised replay files of defects
        # since repaired): re-run first, on every change, in both tiers - the quick sample does not reach them again
        seeds.insert(0, CORPUS_SEED)
    faulthandler.enable()
    # a check can never hang forever: hard exit (non-zero) well after the wall cap
    faulthandler.dump_traceback_later(cfg["wall"] * 3 + 600, exit=True)
    ctx = multiprocessing.get_context("fork")
    stop = False
    with cf.ProcessPoolExecutor(max_workers=workers, mp_context=ctx) as ex:
        pending = set()
        it = iter(seeds)
        exhausted = False

        def submit_more():
            nonlocal exhausted
            while not exhausted and len(pending) < workers * 2 and not stop:
                try:
                    s = next(it)
                except StopIteration:
                    exhausted = True
                    break
                pending.add(ex.submit(worker_batch, (pid, s, tier, case_timeout)))

        submit_more()
        while pending:
            done, pending = cf.wait(pending, timeout=5.0, return_when=cf.FIRST_COMPLETED)
            for fut in done:
                if fut.cancelled():
                    continue  # a batch that had not started when the wall-clock budget ran out: not run, not an error
                try:
                    out = fut.result()
                except Exception as e:  # worker died
                    agg["harness_errors"].append({"error": f"worker failed: {e!r}"})
                    continue
                agg["batches_done"] += 1
                agg["evals"] += out["evals"]
                agg["keys"].update(out["nontrivial_keys"])
                agg["vtime"] += out["vtime"]
                agg["steps"] += out["steps"]
                agg["contexts"].update(out.get("contexts", ()))
                for k in ("faults", "probes", "notes"):
                    for a, b in out[k].items():
                        agg[k][a] = agg[k].get(a, 0) + b
                if len(agg["samples"]) < 4:
                    agg["samples"].extend(out["samples"])
                agg["harness_errors"].extend(out["harness_errors"])
                agg["violations"].extend(out["violations"])
                for kid, cnt in out.get("known", {}).items():
                    f = next((x for x in known if x["id"] == kid), {"id": kid, "what": kid})
                    agg["known_hits"].setdefault(kid, {"finding": f, "count": 0})["count"] += cnt
            if _perf() - t0 > cfg["wall"]:
                stop = True
            if len(agg["violations"]) >= 40:
                stop = True
            if stop:
                for p in pending:
                    p.cancel()
            submit_more()
    wall_search = _perf() - t0

    # ---- triage violations: known findings vs new
    new = []
    seen_cls = {}
    for item in agg["violations"]:
        v, case = item["violation"], item["case"]
        try:
            res, viols = guarded(lambda: run_and_check(mod, case), 120.0)
        except (Exception, CaseTimeout):
            agg["harness_errors"].append({"error": "violation did not re-run in parent: " + traceback.format_exc()[-800:]})
            continue
        match = [x for x in viols if x["cls"] == v["cls"]]
        if not match:
            agg["harness_errors"].append({"error": f"NONDETERMINISM: violation {v['cls']} did not reproduce in the parent process", "case_seed": case.get("seed")})
            continue
        k = match_known(mod, pid, match[0], res, known)
        if k is not None:
            agg["known_hits"].setdefault(k["id"], {"finding": k, "count": 0})["count"] += 1
            continue
        if v["cls"] in seen_cls:
            seen_cls[v["cls"]] += 1
            continue
        seen_cls[v["cls"]] = 1
        new.append((match[0], case, res))

    lines = []
    for k in agg["known_hits"].values():
        f = k["finding"]
        lines.append(f"KNOWN-FINDING: property={pid} {f['what']} (id={f['id']}, matched {k['count']} case(s))")
    violations_reported = []
    for v, case, res in new[:3]:
        small, tried = shrink(mod, pid, case, v["cls"], known, budget_s=cfg.get("shrink_s", 45.0))
        res2, viols2 = guarded(lambda: run_and_check(mod, small), 120.0)
        vv = next((x for x in viols2 if x["cls"] == v["cls"]), v)
        path = write_replay(pid, small, vv, res2.digest())
        # verify the replay in a fresh interpreter
        ok = verify_replay_fresh(pid, path)
        if not ok:
            agg["harness_errors"].append({"error": f"replay {path} did not reproduce in a fresh interpreter"})
            continue
        violations_reported.append({"cls": vv["cls"], "detail": vv["detail"], "replay": path, "shrink_tried": tried, "count_same_class": seen_cls.get(v["cls"], 1)})
        lines.append(f"VIOLATION property={pid} replay={path}")
        lines.append(f"  class={vv['cls']} detail={vv['detail'][:300]}")

    wall = _perf() - t0
    if evidence:
        write_evidence(mod, pid, tier, seed, agg, wall, wall_search, violations_reported, workers)
    for ln in lines:
        print(ln)
    nerr = len(agg["harness_errors"])
    print(
        f"[{pid}] tier={tier} seed={seed} cases={agg['evals']} distinct_nontrivial={len(agg['keys'])} "
        f"violations={len(violations_reported)} known={sum(k['count'] for k in agg['known_hits'].values())} "
        f"harness_errors={nerr} wall={wall:.1f}s"
    )
    if nerr:
        for e in agg["harness_errors"][:3]:
            print("HARNESS-ERROR:", json.dumps(e)[:1500])
    if violations_reported:
        return 1
    if nerr or agg["evals"] == 0:
        return 2
    return 0


def verify_replay_fresh(pid, path):
    env = dict(os.environ, PYTHONHASHSEED="0")
    p = subprocess.run(
        [sys.executable, os.path.join(ROOT, "sim", "cli.py"), pid, "--replay", path, "--no-evidence"],
        capture_output=True,
        text=True,
        env=env,
        timeout=300,
    )
    return p.returncode == 1 and "VIOLATION" in p.stdout and "digest=same" in p.stdout


def write_evidence(mod, pid, tier, seed, agg, wall, wall_search, violations, workers):
    os.makedirs(os.path.join(ROOT, "evidence"), exist_ok=True)
    evals = agg["evals"]
    cov = {
        "evaluations": evals,
        "distinct_nontrivial": len(agg["keys"]),
        "rule": getattr(mod, "RULE", "")
        or "cases are generated from the seed by the property's generator; a case is non-trivial when at least one injected "
        "interruption was accepted or one injected fault fired; distinct = distinct normalised (message, state, injection, "
        "outcome, document-kind) trace digests among the non-trivial cases",
        "samples": agg["samples"][:4],
        "runs_per_hour": int(evals / wall_search * 3600) if wall_search > 0 else 0,
        "batches": agg["batches_done"],
        "workers": workers,
        "seeds": f"batch seeds {seed * 1_000_003}..{seed * 1_000_003 + max(agg['batches_done'] - 1, 0)} (base seed {seed})",
        "virtual_seconds_total": round(agg["vtime"], 3),
        "loop_handles_total": agg["steps"],
        "faults_fired": dict(sorted(agg["faults"].items())),
        "probes": dict(sorted(agg["probes"].items())),
        "injection_contexts": len(agg.get("contexts", ())),
        "injection_contexts_rule": "distinct (request, engine state, command suspended in an await, inside an event bundle, resumable, open runs, plan exhausted) tuples in which an external request landed",
        "injection_context_samples": sorted(agg.get("contexts", ()))[:: max(1, len(agg.get("contexts", ())) // 12)][:12],
        "oracle_notes": dict(sorted(agg["notes"].items())),
        "components_real": getattr(mod, "COMPONENTS_REAL", COMPONENTS_REAL),
        "components_stub": getattr(mod, "COMPONENTS_STUB", COMPONENTS_STUB),
        "known_findings_matched": {k: v["count"] for k, v in agg["known_hits"].items()},
        "violations_reported": violations,
        "harness_errors": agg["harness_errors"][:5],
    }
    ev = {
        "property_id": pid,
        "tier": tier,
        "seed": int(seed),
        "level": getattr(mod, "LEVEL", "exploration"),
        "coverage": cov,
        "assumptions": getattr(mod, "ASSUMPTIONS", ASSUMPTIONS),
        "wall_s": round(wall, 2),
        "violations": len(violations),
    }
    path = os.path.join(ROOT, "evidence", f"{pid}.json")
    with open(path, "w") as f:
        json.dump(ev, f, indent=1, sort_keys=True, default=repr)
    return path


COMPONENTS_REAL = [
    "bluesky.run_engine (RunEngine, Dispatcher, state machine) from /repo working tree",
    "bluesky.bundlers.RunBundler",
    "bluesky.suspenders",
    "bluesky.preprocessors / plan_stubs / plans",
    "bluesky.utils (Msg, CallbackRegistry, ...)",
    "event_model composers and schema validators",
    "stdlib asyncio Task/Future/Handle/TimerHandle/wait/sleep/Event",
]
COMPONENTS_STUB = [
    "event loop selector and clock (SimLoop: virtual time, stepped one handle at a time)",
    "threading.Event / concurrent.futures.Future blocking (drive the simulation instead of blocking)",
    "time.time and uuid.uuid4 (virtual wall clock, seeded uuid stream)",
    "devices, statuses, signals, flyers (fakes written against bluesky.protocols)",
    "subscribers (recording callbacks)",
]
ASSUMPTIONS = [
    "granularity is one event-loop handle: external requests act between handles, never inside one",
    "nested blocking callers return last-in-first-out (a subset of real thread schedules)",
    "devices are fakes implementing bluesky.protocols, not ophyd",
    "sampling, not proof: a clean batch is evidence over the sampled schedules only",
]
