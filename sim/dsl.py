"""Plan DSL: a JSON AST interpreted into real generator functions that yield real `Msg`s.

Every yield site logs what it sent and what it received (value or exception) into the
simulation history (`plan` events) and keeps the actual response object in `ctx.responses`
for identity checks.  Nodes:

  {"op":"msg","cmd":c,"obj":name|None,"args":[...],"kw":{...},"run":key,"site":s,"save":var}
  {"op":"seq","body":[...]}             {"op":"repeat","n":k,"body":[...]}
  {"op":"try","body":[..],"handlers":[{"exc":cls,"body":[..],"reraise":bool}],"else":[..],"finally":[..],"site":s}
  {"op":"raise","exc":cls,"site":s}     {"op":"return","value":v}
  {"op":"stub","name":n,"args":[..],"kw":{..},"save":var}     (bluesky.plan_stubs.<n>)
  {"op":"plan","name":n,"args":[..],"kw":{..}}                (bluesky.plans.<n>)
  {"op":"wrap","name":w,"args":[..],"kw":{..},"body":[..]}    (bluesky.preprocessors.<w>)
  {"op":"native_try", ...}  (reference rendering for C22: same fields as the wrapper forms)

Argument values may contain {"dev":name}, {"var":name}, {"sus":id}, {"cb":id},
{"plan":[nodes]} (a generator instance), {"planfn":[nodes]} (a zero-arg generator function),
{"tuple":[...]}.
"""

from __future__ import annotations

import bluesky.plan_stubs as bps
import bluesky.plans as bp
import bluesky.preprocessors as bpp
from bluesky.utils import (
    FailedPause,
    FailedStatus,
    IllegalMessageSequence,
    InvalidCommand,
    Msg,
    RequestAbort,
    RequestStop,
    RunEngineControlException,
)

from .devices import DeviceFault

EXC = {
    "Exception": Exception,
    "BaseException": BaseException,
    "DeviceFault": DeviceFault,
    "RuntimeError": RuntimeError,
    "ValueError": ValueError,
    "KeyError": KeyError,
    "TimeoutError": TimeoutError,
    "FailedStatus": FailedStatus,
    "IllegalMessageSequence": IllegalMessageSequence,
    "RunEngineControlException": RunEngineControlException,
    "RequestAbort": RequestAbort,
    "RequestStop": RequestStop,
    "FailedPause": FailedPause,
    "InvalidCommand": InvalidCommand,
    "AssertionError": AssertionError,
    "GeneratorExit": GeneratorExit,
}


class PlanError(Exception):
    """Raised by {"op":"raise"} nodes."""


class PlanValueError(ValueError):
    pass


EXC["PlanError"] = PlanError


def summarize(v, depth=0):
    """A JSON-able, deterministic summary of a response (no ids, no addresses)."""
    from .devices import SimStatus, _Base

    if v is None or isinstance(v, (bool, int, float, str)):
        return v
    if isinstance(v, SimStatus):
        return {"status": v.sid, "dev": v.dev, "op": v.op}
    if isinstance(v, _Base):
        return {"dev": v.name}
    if isinstance(v, BaseException):
        return {"exc": type(v).__name__, "msg": str(v)[:120]}
    if hasattr(v, "cid") and hasattr(v, "raise_at"):  # a RecordingCallback
        return {"cb": v.cid}
    if depth > 3:
        return "..."
    if isinstance(v, dict):
        return {str(k): summarize(x, depth + 1) for k, x in v.items()}
    if isinstance(v, (list, tuple, set, frozenset)):
        return [summarize(x, depth + 1) for x in v]
    if hasattr(v, "done") and callable(getattr(v, "done")):  # asyncio future/task
        return {"future": type(v).__name__}
    return type(v).__name__


class Ctx:
    def __init__(self, sim, world, suspenders=None, callbacks=None):
        self.sim = sim
        self.world = world
        self.suspenders = suspenders or {}
        self.callbacks = callbacks or {}
        self.vars = {}
        self.responses = []  # (site, mid, response object)
        self.cmd_results = {}  # mid -> [(seq, object returned by the engine's command coroutine)]
        self.site_of = {}  # mid -> yield site
        self.msgs = {}  # mid -> Msg (keeps them alive; identity)
        self._mid = 0
        self.msg_ids = {}  # id(msg) -> mid

    def mid_of(self, msg):
        k = id(msg)
        m = self.msg_ids.get(k)
        if m is None or self.msgs[m] is not msg:
            self._mid += 1
            m = self._mid
            self.msg_ids[k] = m
            self.msgs[m] = msg
        return m

    def log(self, what, **kw):
        self.sim.record("plan", what=what, **kw)

    # -- value resolution
    def val(self, v):
        if isinstance(v, dict):
            if len(v) == 1:
                ((k, x),) = v.items()
                if k == "dev":
                    return self.world[x]
                if k == "var":
                    return self.vars.get(x)
                if k == "sus":
                    return self.suspenders[x]
                if k == "cb":
                    return self.callbacks[x]
                if k == "plan":
                    return self.run_body(x)
                if k == "planfn":
                    return lambda *a, **kw: self.run_body(x)
                if k == "tuple":
                    return tuple(self.val(i) for i in x)
                if k == "iter":
                    return iter(list(x))  # an iterator without len()
                if k == "sleepfn":
                    # an awaitable factory for 'wait_for' ("must work multiple times"): each call is recorded
                    def factory(d=x):
                        import asyncio

                        self.sim.record("plan", what="awaited", site=None, delay=d)
                        return asyncio.sleep(d)

                    return factory
                if k == "devs":
                    return [self.world[n] for n in x]
            return {k: self.val(x) for k, x in v.items()}
        if isinstance(v, list):
            return [self.val(x) for x in v]
        return v

    # -- interpretation
    def run_body(self, body):
        ret = None
        for node in body:
            ret = yield from self.run(node)
            if isinstance(ret, _Return):
                return ret
        return ret

    def plan(self, body):
        """Top-level generator for a plan body; unwraps return markers."""
        ret = yield from self.run_body(body)
        if isinstance(ret, _Return):
            self.log("plan_done", value=summarize(ret.value))
            return ret.value
        self.log("plan_done", value=None)
        return None

    def run(self, node):
        op = node["op"]
        return (yield from getattr(self, "_op_" + op)(node))

    def _op_msg(self, node):
        site = node.get("site")
        obj = node.get("obj")
        obj = self.world[obj] if isinstance(obj, str) else self.val(obj)
        args = self.val(node.get("args", []))
        kw = self.val(node.get("kw", {}))
        if node.get("reuse"):
            # a plan that keeps one Msg object and yields it again (retry loops, caching_repeater, message lists)
            cache = self.__dict__.setdefault("_reused_msgs", {})
            msg = cache.get(site)
            if msg is None:
                msg = cache[site] = Msg(node["cmd"], obj, *args, run=node.get("run"), **kw)
        else:
            msg = Msg(node["cmd"], obj, *args, run=node.get("run"), **kw)
        mid = self.mid_of(msg)
        self.site_of[mid] = site
        self.log("yield", site=site, mid=mid, cmd=node["cmd"])
        try:
            r = yield msg
        except GeneratorExit as e:
            self.log("closed", site=site, mid=mid, exc=type(e).__name__)
            raise
        except BaseException as e:
            self.log("thrown", site=site, mid=mid, exc=type(e).__name__, text=str(e)[:200])
            raise
        self.log("resp", site=site, mid=mid, value=summarize(r))
        self.responses.append((site, mid, r, self.sim._seq))
        if node.get("save"):
            self.vars[node["save"]] = r
        return r

    def _op_seq(self, node):
        return (yield from self.run_body(node["body"]))

    def _op_repeat(self, node):
        ret = None
        for _ in range(node["n"]):
            ret = yield from self.run_body(node["body"])
            if isinstance(ret, _Return):
                return ret
        return ret

    def _op_raise(self, node):
        self.log("raise", site=node.get("site"), exc=node.get("exc", "PlanError"))
        cls = EXC[node.get("exc", "PlanError")]
        raise cls(node.get("text", f"plan raised at {node.get('site')}"))
        yield  # pragma: no cover

    def _op_return(self, node):
        return _Return(self.val(node.get("value")))
        yield  # pragma: no cover

    def _op_try(self, node):
        site = node.get("site")
        ret = None
        try:
            try:
                ret = yield from self.run_body(node["body"])
            except GeneratorExit:
                raise
            except BaseException as e:
                for h in node.get("handlers", []):
                    if isinstance(e, EXC[h.get("exc", "Exception")]):
                        self.log("except", site=site, exc=type(e).__name__, text=str(e)[:200])
                        r = yield from self.run_body(h.get("body", []))
                        if isinstance(r, _Return):
                            return r
                        if h.get("reraise"):
                            raise
                        break
                else:
                    raise
            else:
                if node.get("else"):
                    self.log("else", site=site)
                    r = yield from self.run_body(node["else"])
                    if isinstance(r, _Return):
                        ret = r
        except GeneratorExit:
            self.log("finally_skipped_on_close", site=site)
            raise
        except BaseException:
            if node.get("finally"):
                self.log("finally", site=site, how="exception")
                yield from self.run_body(node["finally"])
            raise
        else:
            if node.get("finally"):
                self.log("finally", site=site, how="normal")
                r = yield from self.run_body(node["finally"])
                if isinstance(r, _Return):
                    return r
        return ret

    def _op_pyfinally(self, node):
        """A native try/finally whose finally yields even on close (badly behaved plan)."""
        site = node.get("site")
        try:
            ret = yield from self.run_body(node["body"])
        finally:
            self.log("finally", site=site, how="native")
            yield from self.run_body(node.get("finally", []))
        return ret

    def _op_stub(self, node):
        fn = getattr(bps, node["name"])
        args = self.val(node.get("args", []))
        kw = self.val(node.get("kw", {}))
        r = yield from fn(*args, **kw)
        if node.get("save"):
            self.vars[node["save"]] = r
        if node.get("log"):
            self.log("stub_ret", name=node["name"], site=node.get("site"), value=summarize(r))
        return r

    def _op_plan(self, node):
        fn = getattr(bp, node["name"])
        args = self.val(node.get("args", []))
        kw = self.val(node.get("kw", {}))
        r = yield from fn(*args, **kw)
        self.log("plan_ret", name=node["name"], value=summarize(r))
        return r

    def _op_wrap(self, node):
        name = node["name"]
        inner = self._body_gen(node["body"])
        if name == "plan_mutator_noop":
            r = yield from bpp.plan_mutator(inner, lambda m: (None, None))
        elif name == "msg_mutator_identity":
            r = yield from bpp.msg_mutator(inner, lambda m: m)
        elif name == "plan_mutator_insert":
            r = yield from bpp.plan_mutator(inner, self._inserter(node["spec"]))
        elif name == "finalize_decorator":
            dec = bpp.finalize_decorator(lambda: self.run_body(node["final"]))
            r = yield from dec(lambda: inner)()
        elif name == "contingency_wrapper":
            kw = {}
            if node.get("except") is not None:
                kw["except_plan"] = lambda e: self.run_body(node["except"])
            if node.get("else") is not None:
                kw["else_plan"] = lambda: self.run_body(node["else"])
            if node.get("final") is not None:
                kw["final_plan"] = lambda: self.run_body(node["final"])
            r = yield from bpp.contingency_wrapper(inner, auto_raise=node.get("auto_raise", True), **kw)
        elif name == "finalize_wrapper":
            fp = node["final"]
            final = (lambda: self.run_body(fp)) if node.get("final_form") == "fn" else self.run_body(fp)
            r = yield from bpp.finalize_wrapper(inner, final, **({"pause_for_debug": True} if node.get("pause_for_debug") else {}))
        else:
            fn = getattr(bpp, name)
            args = self.val(node.get("args", []))
            kw = self.val(node.get("kw", {}))
            r = yield from fn(inner, *args, **kw)
        if node.get("log"):
            self.log("wrap_ret", name=node["name"], site=node.get("site"), value=summarize(_unret(r)))
        return r

    def _inserter(self, spec):
        """A plan_mutator processor that inserts head / tail plans at the messages of the target sites."""
        targets = set(spec["targets"])
        keep = spec.get("keep", True)

        def proc(m):
            mid = self.mid_of(m)
            site = self.site_of.get(mid)
            self.log("proc", mid=mid, site=site, cmd=m.command)
            if site not in targets:
                return None, None
            head = tail = None
            if spec.get("head") is not None or not keep:

                def head_gen():
                    r = yield from self.run_body(spec.get("head") or [])
                    if keep:
                        r = yield m
                    return r

                head = head_gen()
            if spec.get("tail") is not None:
                tail = self.run_body(spec["tail"])
            return head, tail

        return proc

    def _body_gen(self, body):
        """A generator over `body` that returns a plain value (wrappers see plain values)."""
        r = yield from self.run_body(body)
        return r

    def _op_log(self, node):
        self.log("mark", site=node.get("site"), text=node.get("text"))
        return None
        yield  # pragma: no cover

    def _op_assert_var(self, node):
        return None
        yield  # pragma: no cover


class _Return:
    def __init__(self, value):
        self.value = value


def _unret(r):
    return r.value if isinstance(r, _Return) else r


# --------------------------------------------------------------------------------------
# helpers to build ASTs (used by generators; keep ASTs small and readable)


class SiteCounter:
    def __init__(self, prefix="s"):
        self.n = 0
        self.prefix = prefix

    def __call__(self):
        self.n += 1
        return f"{self.prefix}{self.n}"


def msg(sites, cmd, obj=None, *args, run=None, save=None, **kw):
    n = {"op": "msg", "cmd": cmd, "site": sites()}
    if obj is not None:
        n["obj"] = obj
    if args:
        n["args"] = list(args)
    if kw:
        n["kw"] = kw
    if run is not None:
        n["run"] = run
    if save:
        n["save"] = save
    return n


def count_sites(body):
    n = 0
    for node in body:
        if node.get("op") == "msg":
            n += 1
        for k in ("body", "else", "finally"):
            if k in node and isinstance(node[k], list):
                n += count_sites(node[k])
        for h in node.get("handlers", []):
            n += count_sites(h.get("body", []))
    return n
