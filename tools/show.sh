#!/bin/sh
# usage: show.sh PID replayfile
python3 - "$2" <<'PY'
import json,sys
b=json.load(open(sys.argv[1]))
c=b['case']
print(b['violation']['cls'], '|', b['violation']['detail'][:200])
for s in c['script']:
    s2={k:v for k,v in s.items() if k!='plan'}
    print('  script:', json.dumps(s2)[:400])
    if 'plan' in s and not s.get('tag'):
        def show(body,ind):
            for n in body:
                if n['op']=='msg': print(' '*ind, n['cmd'], n.get('obj',''), n.get('args',''), n.get('kw',''), n.get('run',''))
                else:
                    print(' '*ind, n['op'], {k:v for k,v in n.items() if k not in('body','finally','handlers','else','op','site')})
                    for k in ('body','else','finally'):
                        if n.get(k): print(' '*ind,' ',k+':'); show(n[k],ind+4)
        show(s['plan'],6)
print('  devices:', json.dumps({k:{a:b for a,b in v.items() if a in('kind','async','faults','velocity','trigger_delay')} for k,v in c['devices'].items()}))
print('  re:', c.get('re'), 'sus:', c.get('suspenders'), 'sim:', c.get('sim'))
PY
VERIF_REPO_SRC=$VERIF_REPO_SRC /verif/check $1 --replay $2 --dump 2>&1| cut -c1-250 | grep '"msg"\|inject\|call_\|"state"\|loop_exc\|sim_abort\|"doc"' | sed -e 's/"args.*"state"/"state"/' -e 's/"doc": {.*exit_status/exit_status/' -e 's/"doc": {"uid.*//' | head -${3:-70}
