#!/bin/sh
# Run the thorough tier of every claimed property, one after the other (each is wall-capped); log in /verif/thorough.log
HERE="$(cd "$(dirname "$0")/.." && pwd)"
SEED="${1:-7}"; BUDGET="${2:-600}"
LOG="$HERE/thorough.log"; : > "$LOG"
for id in $(/venv/bin/python -c "import json;print(' '.join(c['property_id'] for c in json.load(open('$HERE/MANIFEST.json'))['checks']))"); do
  "$HERE/check" "$id" --tier thorough --seed "$SEED" --budget "$BUDGET" 2>&1 | grep -E "^\[|VIOLATION|class=|KNOWN-FINDING|HARNESS" | cut -c1-400 >> "$LOG"
done
echo DONE >> "$LOG"
