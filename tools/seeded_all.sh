#!/bin/sh
# Run every seeded change against the quick check of its own property (seed ${SEED:-1}); results in seeded/RESULTS.txt
HERE="$(cd "$(dirname "$0")/.." && pwd)"
: > "$HERE/seeded/RESULTS.txt"
for d in "$HERE"/seeded/*/; do
  n=$(basename "$d")
  [ -f "$d/patch.diff" ] || continue
  "$HERE/tools/seeded_check.sh" "$n" >> "$HERE/seeded/RESULTS.txt" 2>&1
done
rm -f "$HERE"/replays/*.json 2>/dev/null
cat "$HERE/seeded/RESULTS.txt"
