#!/bin/sh
# Run every seeded change against the quick check of its own property and of the properties its meta.json lists
# under also_check (seed ${SEED:-1}), ${JOBS:-4} seeds at a time; results, sorted, in seeded/RESULTS.txt
HERE="$(cd "$(dirname "$0")/.." && pwd)"
TMP=$(mktemp -d /tmp/verif_seeded_all.XXXXXX)
ls -d "$HERE"/seeded/*/ | while read -r d; do
  [ -f "$d/patch.diff" ] && basename "$d"
done > "$TMP/names"
xargs -P "${JOBS:-4}" -I{} sh -c "\"$HERE/tools/seeded_check.sh\" {} > \"$TMP/{}.out\" 2>&1" < "$TMP/names"
: > "$HERE/seeded/RESULTS.txt"
while read -r n; do cat "$TMP/$n.out" >> "$HERE/seeded/RESULTS.txt"; done < "$TMP/names"
rm -rf "$TMP"
rm -f "$HERE"/replays/*.json 2>/dev/null
cat "$HERE/seeded/RESULTS.txt"
