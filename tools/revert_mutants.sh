#!/bin/sh
# Sensitivity by reverting each "fix:" commit of /repo, one at a time, in a scratch worktree, and running the
# quick check of the property the fix was found by.  Expected: the check reports a VIOLATION (exit 1).
# Usage: tools/revert_mutants.sh [seed]        Results: mutants/REVERT_RESULTS.txt
HERE="$(cd "$(dirname "$0")/.." && pwd)"
SEED="${1:-1}"
WT=/tmp/verif_wt_mut
OUT="$HERE/mutants/REVERT_RESULTS.txt"
mkdir -p "$HERE/mutants"
: > "$OUT"
# fix commit -> properties whose checks should notice its absence
MAP="$HERE/mutants/fix_map.txt"
while read -r commit props; do
  [ -z "$commit" ] && continue
  case "$commit" in \#*) continue;; esac
  git -C /repo worktree remove --force "$WT" >/dev/null 2>&1
  rm -rf "$WT"
  git -C /repo worktree add --detach "$WT" HEAD >/dev/null 2>&1 || { echo "$commit worktree-failed" >> "$OUT"; continue; }
  cp /repo/src/bluesky/_version.py "$WT/src/bluesky/_version.py"
  if [ -f "$HERE/mutants/$commit" ]; then
    git -C "$WT" apply "$HERE/mutants/$commit" || { echo "$commit patch-does-not-apply" >> "$OUT"; continue; }
  elif ! git -C "$WT" revert --no-commit "$commit" >/dev/null 2>&1; then
    git -C "$WT" revert --abort >/dev/null 2>&1
    git -C "$WT" checkout -- . >/dev/null 2>&1
    # fall back to reversing the patch with reduced context
    if ! git -C /repo show "$commit" -- src | git -C "$WT" apply -R -C1 --recount >/dev/null 2>&1; then
      echo "$commit revert-does-not-apply (later fixes rewrote the same lines) props=$props" >> "$OUT"
      continue
    fi
  fi
  for p in $props; do
    res=$(VERIF_REPO_SRC="$WT/src" "$HERE/check" "$p" --tier quick --seed "$SEED" --no-evidence ${BUDGET:+--budget $BUDGET} 2>&1)
    rc=$?
    n=$(echo "$res" | grep -c "^VIOLATION")
    cls=$(echo "$res" | grep "class=" | head -1 | sed 's/^ *//' | cut -c1-160)
    echo "$commit $p exit=$rc violations=$n $cls" >> "$OUT"
  done
done < "$MAP"
git -C /repo worktree remove --force "$WT" >/dev/null 2>&1
rm -rf "$WT"
git -C /repo worktree prune
rm -f "$HERE"/replays/*.json 2>/dev/null
cat "$OUT"
