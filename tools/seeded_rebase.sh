#!/bin/sh
# tools/seeded_rebase.sh [name ...]
# For every seeded change (or the named ones) whose patch.diff no longer applies to /repo HEAD: try a three-way
# apply in a scratch worktree.  A clean merge replaces patch.diff (the sub-agent's own diff is kept as
# patch.as-submitted.diff and meta.json gets a "rebased" note); a conflict is printed for resolution by hand
# (resolved file -> `git diff HEAD > seeded/<name>/patch.diff`).
HERE="$(cd "$(dirname "$0")/.." && pwd)"
WT=/tmp/verif_wt_rebase_$$
git -C /repo worktree add --detach "$WT" HEAD >/dev/null 2>&1 || exit 2
names="$*"
[ -n "$names" ] || names=$(ls "$HERE/seeded")
for n in $names; do
  p="$HERE/seeded/$n/patch.diff"; [ -f "$p" ] || continue
  git -C "$WT" reset -q --hard HEAD
  if git -C "$WT" apply --check "$p" 2>/dev/null; then continue; fi
  out=$(git -C "$WT" apply --3way "$p" 2>&1)
  if grep -rq "^<<<<<<< " "$WT/src/bluesky" 2>/dev/null; then
    echo "== $n: CONFLICT"; for f in $(grep -rl "^<<<<<<< " "$WT/src/bluesky"); do echo "-- $f"; sed -n '/^<<<<<<< /,/^>>>>>>> /p' "$f"; done
    continue
  fi
  if [ -z "$(git -C "$WT" diff HEAD)" ]; then echo "== $n: does not apply ($out)"; continue; fi
  [ -f "$HERE/seeded/$n/patch.as-submitted.diff" ] || cp "$p" "$HERE/seeded/$n/patch.as-submitted.diff"
  git -C "$WT" diff HEAD > "$p"
  /venv/bin/python - "$HERE/seeded/$n/meta.json" <<'PY'
import json, sys
p = sys.argv[1]
try:
    m = json.load(open(p))
except Exception:
    sys.exit(0)
m["rebased"] = "patch.diff re-made on a later /repo HEAD (git apply --3way, clean or resolved by hand) after fix: commits changed the same lines; the change itself is the same; the sub-agent's own diff is kept as patch.as-submitted.diff"
json.dump(m, open(p, "w"), indent=1)
PY
  echo "== $n: rebased cleanly"
done
git -C /repo worktree remove --force "$WT" >/dev/null 2>&1; git -C /repo worktree prune
