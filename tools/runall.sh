#!/bin/sh
# Run every claimed property's check (default: quick tier, seed 1) and print one summary line each.
HERE="$(cd "$(dirname "$0")/.." && pwd)"
TIER="${1:-quick}"; SEED="${2:-1}"
rc=0
for id in $(/venv/bin/python -c "import json;print(' '.join(c['property_id'] for c in json.load(open('$HERE/MANIFEST.json'))['checks']))"); do
  out=$("$HERE/check" "$id" --tier "$TIER" --seed "$SEED" 2>&1); r=$?
  echo "$out" | grep -E "^\[|VIOLATION|KNOWN-FINDING|HARNESS" | head -5
  [ $r -ne 0 ] && { echo "  -> exit $r"; rc=1; }
done
exit $rc
