#!/bin/sh
# tools/seeded_ingest.sh <PROP> <name>
# Takes a sub-agent's deliverables from /tmp/seed/<PROP>/seeded/, confirms them in a fresh scratch worktree
# (demo exits 0 on the unchanged code and 1 with the patch), stores them as /verif/seeded/<name>/ and prints what
# the property's quick check says about the patched tree.
HERE="$(cd "$(dirname "$0")/.." && pwd)"
prop="$1"; name="$2"; chk="${3:-$1}"
ROOT="${SEED_ROOT:-/tmp/seed}"
SRC=$ROOT/$prop/seeded
[ -f "$SRC/patch.diff" ] && [ -f "$SRC/demo.py" ] || { echo "missing deliverables in $SRC"; exit 2; }
D="$HERE/seeded/$name"; mkdir -p "$D"
cp "$SRC/patch.diff" "$D/patch.diff"; cp "$SRC/demo.py" "$D/demo.py"; [ -f "$SRC/notes.md" ] && cp "$SRC/notes.md" "$D/notes.md"
WT=/tmp/verif_wt_ing_$$
git -C /repo worktree add --detach "$WT" HEAD >/dev/null 2>&1 || exit 2
cp /repo/src/bluesky/_version.py "$WT/src/bluesky/_version.py"
mkdir -p "$WT/seeded"; sed "s#$ROOT/$prop#$WT#g" "$D/demo.py" > "$WT/seeded/demo.py"
run_demo() { (cd "$WT" && PYTHONPATH="$WT/src" OPHYD_CONTROL_LAYER=dummy timeout 600 /venv/bin/python seeded/demo.py > "$WT/demo.out" 2>&1; echo $?); }
rc0=$(run_demo); tail0=$(tail -2 "$WT/demo.out" | tr '\n' ' ' | cut -c1-200)
if git -C "$WT" apply "$D/patch.diff"; then
  rc1=$(run_demo); tail1=$(tail -3 "$WT/demo.out" | tr '\n' ' ' | cut -c1-300)
else
  rc1="patch-does-not-apply"
fi
echo "demo without patch: exit=$rc0  [$tail0]"
echo "demo with patch:    exit=$rc1  [$tail1]"
git -C /repo worktree remove --force "$WT" >/dev/null 2>&1; rm -rf "$WT"; git -C /repo worktree prune
echo "{\"property\": \"$chk\", \"demo_exit_unpatched\": \"$rc0\", \"demo_exit_patched\": \"$rc1\"}" > "$D/confirm.json"
"$HERE/tools/seeded_check.sh" "$name" "$chk"
