#!/bin/sh
# tools/try_revert.sh <commit|patchfile> <PROP> [seeds...]: revert one fix (or apply a patch) in a scratch worktree, run a check there
HERE="$(cd "$(dirname "$0")/.." && pwd)"
WT=/tmp/verif_wt_try
what="$1"; prop="$2"; shift 2
git -C /repo worktree remove --force "$WT" >/dev/null 2>&1; rm -rf "$WT"
git -C /repo worktree add --detach "$WT" HEAD >/dev/null 2>&1 || exit 2
cp /repo/src/bluesky/_version.py "$WT/src/bluesky/_version.py"
if [ -f "$what" ]; then
  git -C "$WT" apply "$what" || { echo "patch does not apply"; git -C /repo worktree remove --force "$WT"; exit 2; }
else
  git -C "$WT" revert --no-commit "$what" >/dev/null 2>&1 || { echo "revert does not apply"; git -C /repo worktree remove --force "$WT"; exit 2; }
fi
for s in "${@:-1}"; do
  VERIF_REPO_SRC="$WT/src" "$HERE/check" "$prop" --tier "${TIER:-quick}" --seed "$s" --no-evidence ${BUDGET:+--budget $BUDGET} 2>&1 | grep -E "^\[|class=" | cut -c1-220 | head -4
done
git -C /repo worktree remove --force "$WT" >/dev/null 2>&1; rm -rf "$WT"; git -C /repo worktree prune
