#!/usr/bin/env python3
"""tools/mkmeta.py <seeded-dir> <PROP> <round> --change .. --needs .. --as-submitted .. [--after ..] --caught C15[,C04] [--also C04] [--note ..]
Writes seeded/<dir>/meta.json in the layout the other seeds use."""
import argparse, json, os
ap = argparse.ArgumentParser()
ap.add_argument("name"); ap.add_argument("prop"); ap.add_argument("round", type=int)
ap.add_argument("--change", required=True); ap.add_argument("--needs", required=True)
ap.add_argument("--as-submitted", required=True); ap.add_argument("--after", default=None)
ap.add_argument("--caught", default=""); ap.add_argument("--also", default=""); ap.add_argument("--note", default="")
a = ap.parse_args()
runs = {f"{a.prop} quick seed 1 (as submitted)": a.as_submitted}
if a.after:
    runs[f"quick seed 1 (after the strengthening)"] = a.after
m = {
    "property": a.prop, "round": a.round,
    "source": "sub-agent, round %d (fresh context: property text + its own scratch worktree only%s)" % (a.round, "; told not to revert or narrow an existing fix" if a.round >= 4 else ""),
    "change": a.change, "needs_to_manifest": a.needs,
    "confirmed_by_me": "tools/seeded_ingest.sh in a fresh scratch worktree: demo exit 0 on the unchanged code, 1 with the patch",
    "checks_run": runs, "caught_by": [x for x in a.caught.split(",") if x],
}
if a.also:
    m["also_check"] = [x for x in a.also.split(",") if x]
m["strengthening_or_note"] = a.note
here = os.path.dirname(os.path.dirname(os.path.abspath(__file__)))
json.dump(m, open(os.path.join(here, "seeded", a.name, "meta.json"), "w"), indent=1)
print("wrote", a.name)
