#!/bin/sh
# tools/seeded_check.sh <seeded-dir-name> [PROP ...]
# Applies /verif/seeded/<name>/patch.diff to a scratch worktree of /repo (never to /repo itself while other work is
# running; the effect is the same as `git -C /repo apply` + run + `git -C /repo checkout -- .`) and runs the quick
# checks of the given properties (default: the property named in meta.json, then every other claimed property when
# ALL=1).  Prints one line per check:  <name> <PROP> exit=<rc> violations=<n> <first violation class>
HERE="$(cd "$(dirname "$0")/.." && pwd)"
name="$1"; shift
D="$HERE/seeded/$name"
[ -f "$D/patch.diff" ] || { echo "no $D/patch.diff"; exit 2; }
props="$*"
if [ -z "$props" ]; then
  props=$(/venv/bin/python -c "import json;m=json.load(open('$D/meta.json'));print(' '.join([m['property']]+m.get('also_check',[])))")
fi
if [ -n "$ALL" ]; then
  props=$(/venv/bin/python -c "import json;print(' '.join(c['property_id'] for c in json.load(open('$HERE/MANIFEST.json'))['checks']))")
fi
WT=/tmp/verif_wt_seed_$$
git -C /repo worktree add --detach "$WT" HEAD >/dev/null 2>&1 || exit 2
cp /repo/src/bluesky/_version.py "$WT/src/bluesky/_version.py"
if ! git -C "$WT" apply "$D/patch.diff"; then
  echo "$name patch-does-not-apply"; git -C /repo worktree remove --force "$WT"; git -C /repo worktree prune; exit 2
fi
for p in $props; do
  res=$(VERIF_REPO_SRC="$WT/src" "$HERE/check" "$p" --tier "${TIER:-quick}" --seed "${SEED:-1}" --no-evidence ${BUDGET:+--budget $BUDGET} 2>&1)
  rc=$?
  n=$(echo "$res" | grep -c "^VIOLATION")
  cls=$(echo "$res" | grep "class=" | head -1 | sed 's/^ *//' | cut -c1-200)
  echo "$name $p exit=$rc violations=$n $cls"
done
git -C /repo worktree remove --force "$WT" >/dev/null 2>&1; rm -rf "$WT"; git -C /repo worktree prune
