import json, sys, importlib, os
sys.path.insert(0,'/verif')
props={json.loads(l)['id']:json.loads(l) for l in open('/verif/properties.jsonl')}
NA=json.load(open('/verif/not_applicable.json'))
checks=[]
for f in sorted(os.listdir('/verif/oracles')):
    if f.startswith('c') and f[1:3].isdigit() and f.endswith('.py'):
        pid=f[:-3].upper()
        mod=importlib.import_module('oracles.'+f[:-3])
        level=getattr(mod,'LEVEL','exploration')
        checks.append({
          "property_id": pid,
          "quick_cmd": f"./check {pid} --tier quick",
          "thorough_cmd": f"./check {pid} --tier thorough",
          "evidence_file": f"/verif/evidence/{pid}.json",
          "replay_cmd_template": f"./check {pid} --replay {{path}}",
          "engine": getattr(mod,'ENGINE','re_sim'),
          "level_claimed": {"category": level, "text": getattr(mod,'LEVEL_TEXT', "Seeded search over generated workloads, interleavings and fault schedules on the deterministic simulator; the oracle is evaluated on every explored history. Evidence over the sampled schedules, not proof."), "design_ref": "DESIGN.md section 5 ("+pid+")"},
          "level_note": getattr(mod,'LEVEL_NOTE', "Trusted base: the simulator kernel (SimLoop, blocking seams), the fake devices and the oracle itself. Granularity is one event-loop handle; devices are fakes against bluesky.protocols."),
          "technique": getattr(mod,'TECHNIQUE', "deterministic simulation with fault injection: seeded schedule/fault search, history oracle"),
        })
m={
 "version":1,
 "setup_cmd":"./check selftest --batches 2",
 "hooks":{"guard":"BLUESKY_VERIF_SIM","enable":"no source hooks are needed: every seam is a constructor parameter (loop=, during_task=, context_managers=, zmq=, ...) or a module attribute replaced from /verif at simulation start (sim/kernel.py `installed`); BLUESKY_VERIF_SIM is reserved and unused","baseline_off_cmd":"cd /repo && /venv/bin/python -m pytest -ra -q -p no:cacheprovider --timeout=900 --continue-on-collection-errors","source_commits":[],"add_only":True},
 "engines":[{"name":"re_sim","path":"sim/","serves_properties":[c["property_id"] for c in checks if c["engine"]=="re_sim"],"kind_free_text":"single-process deterministic simulator: stepped virtual-time asyncio loop (SimLoop), blocking seams replaced by 'drive the simulation', seeded external actors and fault injection, explicit JSON cases with shrinking and replay"}],
 "checks":checks,
 "notes":"./check <ID> [--tier quick|thorough] [--seed N] [--replay FILE]; exit 0 held, 1 VIOLATION (replay file written and verified in a fresh interpreter), 2 harness error. known_findings.json lists genuine defects recorded rather than repaired (KNOWN-FINDING lines) and the fix: commits made in /repo.",
 "not_applicable":NA + [{"property_id":p,"reason":"claimed by DESIGN.md section 5 but its check is not built yet; not claimed until it is"} for p in sorted(props) if p not in {c["property_id"] for c in checks} and p not in {n["property_id"] for n in NA}],
}
for e in ("fs_sim","zmq_sim"):
    sp=[c["property_id"] for c in checks if c["engine"]==e]
    if sp: m["engines"].append({"name":e,"path":"sim/","serves_properties":sp,"kind_free_text":"same kernel with in-memory "+("file system" if e=="fs_sim" else "0MQ transport")+" fakes"})
json.dump(m,open('/verif/MANIFEST.json','w'),indent=1)
print(len(checks),'checks')
